#!/bin/sh
# Offline setup: check the tools, parse every TLA+ module, create scratch directories. Nothing is built.
set -e
cd "$(dirname "$0")"
mkdir -p out evidence
command -v java >/dev/null || { echo "java missing"; exit 1; }
test -f /opt/veriftools/tla/tla2tools.jar || { echo "tla2tools.jar missing"; exit 1; }
/venv/bin/python -c "import pandas, numpy, networkx" || { echo "/venv lacks pandas/numpy/networkx"; exit 1; }
fail=0
cd spec
for f in *.tla; do
  if ! java -cp /opt/veriftools/tla/tla2tools.jar:/opt/veriftools/tla/CommunityModules-deps.jar tla2sany.SANY "$f" >../out/sany.log 2>&1 \
     || grep -qE "Semantic errors|\*\*\* Errors|Fatal errors|Parse Error|Could not (find|parse)" ../out/sany.log; then
    echo "SANY failed on $f"; tail -20 ../out/sany.log; fail=1
  fi
done
cd ..
exit $fail
