#!/usr/bin/env python3
"""Run the repository's stable baseline with the verification guard OFF and compare with BASELINE.json."""
import json, os, subprocess, sys, tempfile, xml.etree.ElementTree as ET

def main():
    base = json.load(open("/root/.vp/BASELINE.json"))
    env = dict(os.environ)
    env.pop("HTA_VERIF", None)
    env.pop("HTA_VERIF_DELAYS", None)
    with tempfile.TemporaryDirectory() as d:
        junit = os.path.join(d, "j.xml")
        cmd = ["/venv/bin/python", "-m", "pytest", "-ra", "-q", "-p", "no:cacheprovider", "--timeout=900",
               "--continue-on-collection-errors", f"--junitxml={junit}"]
        p = subprocess.run(cmd, cwd="/repo", env=env, stdout=subprocess.PIPE, stderr=subprocess.STDOUT, text=True)
        passed = set()
        for tc in ET.parse(junit).getroot().iter("testcase"):
            if not any(c.tag in ("failure", "error", "skipped") for c in tc):
                passed.add(f"{tc.get('classname')}::{tc.get('name')}")
    missing = [t for t in base["stable_pass"] if t not in passed]
    print(f"baseline: {len(base['stable_pass']) - len(missing)}/{len(base['stable_pass'])} stable tests pass; total passed {len(passed)}")
    for m in missing:
        print("MISSING", m)
    sys.exit(1 if missing else 0)

if __name__ == "__main__":
    main()
