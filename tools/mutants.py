#!/usr/bin/env python3
"""Sensitivity self-test (never part of a verdict): apply small semantic changes to /repo's working tree one at a time,
run the quick check of the properties they should break (without the model-checking part), expect a VIOLATION, undo.
Usage: tools/mutants.py [name-substring ...]"""
import json, os, re, subprocess, sys, time

REPO = "/repo"
VERIF = os.path.dirname(os.path.dirname(os.path.abspath(__file__)))

# (name, file, old, new, [properties expected to report a violation])
M = [
 ("merge-no-cummax", "hta/utils/utils.py", 'kernel_df["end"].shift().cummax()', 'kernel_df["end"].shift()', ["C04", "C07"]),
 ("align-end-not-shifted", "hta/common/trace.py", '                trace_df["end"] = trace_df["end"] - self.min_ts\n', '                pass\n', ["C01"]),
 ("ceil-to-floor", "hta/common/trace_parser.py", 'apply(lambda x: math.ceil(x))', 'apply(lambda x: math.floor(x))', ["C01"]),
 ("keep-trace-span", "hta/common/trace_parser.py", 'df.drop(df[df["cat"] == "Trace"].index, inplace=True)', 'pass', ["C01"]),
 ("link-one-direction", "hta/common/trace.py", '    df.loc[merged["index_y"], "index_correlation"] = merged["index_x"].values\n', '', ["C02"]),
 ("link-sentinel", "hta/common/trace.py", 'df["index_correlation"] = np.minimum(df["correlation"], 0)', 'df["index_correlation"] = np.minimum(df["correlation"], -1)', ["C02"]),
 ("iter-closed-interval", "hta/common/trace.py", 'if step[0] <= ts < step[0] + step[1]:', 'if step[0] <= ts <= step[0] + step[1]:', ["C12"]),
 ("trim-le", "hta/common/trace.py", 'else cpu_kernels[cpu_kernels["ts"] < last_profiler_start]', 'else cpu_kernels[cpu_kernels["ts"] <= last_profiler_start]', ["C12"]),
 ("overlap-running-ge", "hta/analyzers/communication_analysis.py", 'status_df["running"].eq(3)', 'status_df["running"].ge(2)', ["C07"]),
]


def run(cmd, **kw):
    return subprocess.run(cmd, stdout=subprocess.PIPE, stderr=subprocess.STDOUT, text=True, **kw)


def main():
    sel = sys.argv[1:]
    assert run(["git", "-C", REPO, "status", "--porcelain", "--untracked-files=no"]).stdout.strip() == "", "/repo has uncommitted changes"
    results = []
    for name, f, old, new, props in M:
        if sel and not any(s in name or s in props for s in sel):
            continue
        p = os.path.join(REPO, f)
        src = open(p).read()
        if src.count(old) != 1:
            print(f"SKIP {name}: pattern occurs {src.count(old)} times")
            results.append((name, "pattern-missing", props))
            continue
        try:
            open(p, "w").write(src.replace(old, new))
            for prop in props:
                if sel and not any(s in name or s == prop for s in sel):
                    continue
                t0 = time.time()
                r = run([os.path.join(VERIF, "check"), prop, "--tier", "quick", "--no-mc"], cwd=VERIF)
                caught = r.returncode == 1 and "VIOLATION property=" + prop in r.stdout
                what = re.findall(r"\[([^\]]*)\]", r.stdout)[:1]
                print(f"{'CAUGHT' if caught else 'MISSED'} {name} by {prop} rc={r.returncode} {what} ({time.time()-t0:.0f}s)")
                if not caught:
                    print("   " + "\n   ".join(r.stdout.strip().splitlines()[-4:]))
                results.append((name, "caught" if caught else "missed", prop))
        finally:
            open(p, "w").write(src)
    assert run(["git", "-C", REPO, "status", "--porcelain", "--untracked-files=no"]).stdout.strip() == ""
    missed = [r for r in results if r[1] != "caught"]
    print(f"{len(results) - len(missed)}/{len(results)} caught")
    sys.exit(1 if missed else 0)


if __name__ == "__main__":
    main()
