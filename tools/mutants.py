#!/usr/bin/env python3
"""Sensitivity self-test (never part of a verdict): apply small semantic changes to /repo's working tree one at a time,
run the quick check of the properties they should break (without the model-checking part), expect a VIOLATION, undo.
Usage: tools/mutants.py [name-substring ...]"""
import json, os, re, subprocess, sys, time

REPO = "/repo"
VERIF = os.path.dirname(os.path.dirname(os.path.abspath(__file__)))

# (name, file, old, new, [properties expected to report a violation])
M = [
 ("merge-no-cummax", "hta/utils/utils.py", 'kernel_df["end"].shift().cummax()', 'kernel_df["end"].shift()', ["C04", "C07"]),
 ("align-end-not-shifted", "hta/common/trace.py", '                trace_df["end"] = trace_df["end"] - self.min_ts\n', '                pass\n', ["C01"]),
 ("ceil-to-floor", "hta/common/trace_parser.py", 'apply(lambda x: math.ceil(x))', 'apply(lambda x: math.floor(x))', ["C01"]),
 ("keep-trace-span", "hta/common/trace_parser.py", 'df.drop(df[df["cat"] == "Trace"].index, inplace=True)', 'pass', ["C01"]),
 ("link-one-direction", "hta/common/trace.py", '    df.loc[merged["index_y"], "index_correlation"] = merged["index_x"].values\n', '', ["C02"]),
 ("link-sentinel", "hta/common/trace.py", 'df["index_correlation"] = np.minimum(df["correlation"], 0)', 'df["index_correlation"] = np.minimum(df["correlation"], -1)', ["C02"]),
 ("iter-closed-interval", "hta/common/trace.py", 'if step[0] <= ts < step[0] + step[1]:', 'if step[0] <= ts <= step[0] + step[1]:', ["C12"]),
 ("trim-le", "hta/common/trace.py", 'else cpu_kernels[cpu_kernels["ts"] < last_profiler_start]', 'else cpu_kernels[cpu_kernels["ts"] <= last_profiler_start]', ["C12"]),
 ("overlap-running-ge", "hta/analyzers/communication_analysis.py", 'status_df["running"].eq(3)', 'status_df["running"].ge(2)', ["C07"]),
 ("queue-tie-key", "hta/analyzers/trace_counters.py", '.sort_values(by=["ts", "queue"], ascending=[True, False])', '.sort_values(by="ts")', ["C14"]),
 ("bw-zero-dur", "hta/analyzers/trace_counters.py", 'memcpy_kernels.loc[memcpy_kernels.dur == 0, ["dur"]] = 1', 'pass', ["C14"]),
 ("counter-ts-shift", "hta/common/trace.py", 'events_df["ts"] = events_df["ts"] + self.min_ts', 'events_df["ts"] = events_df["ts"]', ["C14"]),
 ("launch-delay-noclip", "hta/analyzers/cuda_kernel_analysis.py", 'joined_df["launch_delay"] = joined_df["launch_delay"].clip(lower=0)', 'pass', ["C15"]),
 ("launch-delay-from-start", "hta/analyzers/cuda_kernel_analysis.py", 'joined_df["ts_y"] - joined_df["ts_x"] - joined_df["dur_x"]', 'joined_df["ts_y"] - joined_df["ts_x"]', ["C15"]),
 ("idle-join-sentinel", "hta/analyzers/breakdown_analysis.py", 'trace_df.loc[trace_df["index"] > 0, ["ts", "index"]],', 'trace_df[["ts", "index"]],', ["C06"]),
 ("idle-hostwait-ge", "hta/analyzers/breakdown_analysis.py", 'is_host_wait = gpu_kernels_s["ts_runtime"] > gpu_kernels_s["prev_end_ts"]', 'is_host_wait = gpu_kernels_s["ts_runtime"] >= gpu_kernels_s["prev_end_ts"]', ["C06"]),
 ("idle-thr-le", "hta/analyzers/breakdown_analysis.py", 'gpu_kernels_s["idle_interval"] < consecutive_kernel_delay', 'gpu_kernels_s["idle_interval"] <= consecutive_kernel_delay', ["C06"]),
 ("cs-key-open-order", "hta/common/trace_call_stack.py", '        return (time, 2, -dur, index)\n', '        return (time, 2, dur, index)\n', ["C03"]),
 ("cs-key-zero-group", "hta/common/trace_call_stack.py", '            group = 0 if time in close_times else 3\n', '            group = 3\n', ["C03"]),
 ("cs-lessthan-open-order", "hta/common/trace_call_stack.py", '            return x[_I_DUR] > y[_I_DUR]\n', '            return x[_I_DUR] < y[_I_DUR]\n', ["C03"]),
 ("oldcs-key-start-order", "hta/common/call_stack.py", '            return (e.time, 2, -e.dur, e.idx)\n', '            return (e.time, 2, e.dur, e.idx)\n', ["C03"]),
 ("oldcs-key-zero-group", "hta/common/call_stack.py", '                group = 0 if e.time in end_times else 3\n', '                group = 0\n', ["C03"]),
 ("oldcs-trunc-end", "hta/common/call_stack.py", '        df["end"] = df["ts"] + df["dur"]\n', '        df["end"] = df["ts"] + df["dur"].astype(int)\n', ["C03"]),
 ("height-childless", "hta/common/trace_call_stack.py", '                    h = 1\n                    for c in node.children:', '                    h = 0\n                    for c in node.children:', ["C13"]),
 ("kernel-last-end", "hta/common/trace_call_stack.py", '                end = max(end, c_info.last_end)', '                end = max(end, c_info.first_start)', ["C13"]),
 ("bwd-guard", "hta/common/trace_call_stack.py", '                & self.full_df["end"].le(end)\n', '', ["C13"]),
 ("seq-min-depth", "hta/analyzers/cuda_kernel_analysis.py", 'min_depth = candidate_nodes["depth"].min()', 'min_depth = candidate_nodes["depth"].max()', ["C16"]),
 ("symtab-dup", "hta/common/trace_symbol_table.py", '            if s not in self.sym_index:\n', '            if True:\n', ["C11"]),
 ("reencode-name-only", "hta/common/trace.py", '        global_map = self.symbol_table.get_sym_id_map()\n        for rank in ranks:\n            local_table = local_symbol_tables[rank].get_sym_table()\n            for col in ["cat", "name"]:', '        global_map = self.symbol_table.get_sym_id_map()\n        for rank in ranks:\n            local_table = local_symbol_tables[rank].get_sym_table()\n            for col in ["name"]:', ["C11"]),
 ("cp-attr-case3", "hta/analyzers/critical_path_analysis.py", '            ev_idx = dest.ev_idx  # Case 3', '            ev_idx = src.ev_idx  # Case 3', ["C10"]),
 ("cp-bound-comm", "hta/analyzers/critical_path_analysis.py", '    if is_comm_kernel(row["s_name"]):\n        return "gpu_communication_bound"\n    return "gpu_compute_bound"', '    if is_comm_kernel(row["s_name"]):\n        return "gpu_compute_bound"\n    return "gpu_communication_bound"', ["C10"]),
 ("cp-k2k-lastnode", "hta/analyzers/critical_path_analysis.py", '            last_node[stream] = end_node\n', '            last_node[stream] = start_node\n', ["C08"]),
 ("cp-longest-unweighted", "hta/analyzers/critical_path_analysis.py", 'self.critical_path_nodes = nx.dag_longest_path(self, weight="weight")', 'self.critical_path_nodes = nx.dag_longest_path(self, weight="wt")', ["C09"]),
 ("cp-sync-guard", "hta/analyzers/critical_path_analysis.py", 'if end_node is None or gpu_node.ts > end_node.ts:', 'if end_node is None:', ["C08"]),
 ("cp-events-set", "hta/analyzers/critical_path_analysis.py", 'self.node_list[nid].ev_idx for nid in self.critical_path_nodes\n', 'self.node_list[nid].ev_idx for nid in self.critical_path_nodes[1:]\n', ["C09"]),
 ("persist-attr", "hta/analyzers/critical_path_analysis.py", '    restored_instance.edge_to_event_map = pickled_obj.edge_to_event_map\n', '    restored_instance.edge_to_event_map = {}\n', ["C19"]),
 ("persist-path", "hta/analyzers/critical_path_analysis.py", '    restored_instance.critical_path_nodes = pickled_obj.critical_path_nodes\n', '    restored_instance.critical_path_nodes = pickled_obj.critical_path_nodes[:-1]\n', ["C19"]),
 ("overlay-mark", "hta/analyzers/critical_path_analysis.py", '            if ev_idx in critical_path_graph.critical_path_events_set:\n', '            if ev_idx + 1 in critical_path_graph.critical_path_events_set:\n', ["C20"]),
 ("overlay-flow-tid", "hta/analyzers/critical_path_analysis.py", '            flow_events.append(get_flow_event(v, end_ev, e, flow_id, is_start=False))', '            flow_events.append(get_flow_event(v, start_ev, e, flow_id, is_start=False))', ["C20"]),
 ("rank-update-clobber", "hta/common/trace_file.py", '            trace_data["distributedInfo"]["rank"] = rank\n', '            trace_data["distributedInfo"] = {"rank": rank}\n', ["C20"]),
 ("seq-minlen", "hta/analyzers/cuda_kernel_analysis.py", '& candidate_nodes["num_kernels"].ge(min_pattern_len)', '& candidate_nodes["num_kernels"].gt(min_pattern_len)', ["C16"]),
]


def run(cmd, **kw):
    return subprocess.run(cmd, stdout=subprocess.PIPE, stderr=subprocess.STDOUT, text=True, **kw)


def main():
    """Mutants are applied in a scratch worktree of /repo's HEAD under /tmp (never in /repo itself); the checks run against it via VF_REPO."""
    import tempfile
    sel = sys.argv[1:]
    wt = tempfile.mkdtemp(prefix="mutant-", dir="/tmp")
    os.rmdir(wt)
    a = run(["git", "-C", REPO, "worktree", "add", "--detach", wt, "HEAD"])
    assert a.returncode == 0, a.stdout
    results = []
    try:
        for name, f, old, new, props in M:
            if sel and not any(s in name or s in props for s in sel):
                continue
            p = os.path.join(wt, f)
            src = open(p).read()
            if src.count(old) != 1:
                print(f"SKIP {name}: pattern occurs {src.count(old)} times")
                results.append((name, "pattern-missing", props))
                continue
            try:
                open(p, "w").write(src.replace(old, new))
                for prop in props:
                    if sel and not any(s in name or s == prop for s in sel):
                        continue
                    t0 = time.time()
                    r = run([os.path.join(VERIF, "check"), prop, "--tier", "quick", "--no-mc"], cwd=VERIF, env=dict(os.environ, VF_REPO=wt))
                    caught = r.returncode == 1 and "VIOLATION property=" + prop in r.stdout
                    viol = [l for l in r.stdout.splitlines() if l.startswith("VIOLATION")][:1]
                    what = viol[0].split("[")[-1].rstrip("]") if viol else ""
                    print(f"{'CAUGHT' if caught else 'MISSED'} {name} by {prop} rc={r.returncode} [{what}] ({time.time()-t0:.0f}s)", flush=True)
                    if not caught:
                        print("   " + "\n   ".join(r.stdout.strip().splitlines()[-4:]))
                    results.append((name, "caught" if caught else "missed", prop))
            finally:
                open(p, "w").write(src)
    finally:
        run(["git", "-C", REPO, "worktree", "remove", "--force", wt])
    missed = [r for r in results if r[1] != "caught"]
    print(f"{len(results) - len(missed)}/{len(results)} caught")
    sys.exit(1 if missed else 0)


if __name__ == "__main__":
    main()
