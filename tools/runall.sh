#!/bin/sh
# run every claimed quick (or $1=thorough) check in sequence; print one line per property
cd "$(dirname "$0")/.."
tier="${1:-quick}"
rc=0
for p in $(python3 -c "import json; print(' '.join(c['property_id'] for c in json.load(open('MANIFEST.json'))['checks']))"); do
  out=$(./check "$p" --tier "$tier" 2>&1 | grep -v conda)
  r=$?
  echo "$out" | grep -E "VIOLATION|MACHINERY|^$p " | cut -c1-300
  echo "$out" | grep -q "VIOLATION\|MACHINERY" && rc=1
done
python3-vt - <<'PY'
import json, jsonschema, glob
sch = json.load(open('/root/.vp/EVIDENCE.schema.json'))
man = json.load(open('/verif/MANIFEST.json'))
jsonschema.validate(man, json.load(open('/root/.vp/MANIFEST.schema.json')))
for c in man['checks']:
    jsonschema.validate(json.load(open(c['evidence_file'])), sch)
print("manifest + evidence valid:", len(man['checks']))
PY
exit $rc
