#!/usr/bin/env python3
"""Generates vf/session_states.json from MC_Session: for every distinct state of the shared frames (set of derived columns) that the
model reaches with at most three public calls (without the re-parsing call), the shortest histories that reach it.  The analyzer checks
draw their call prefixes from this table, so that every property is exercised on every frame state of the model (state coverage), not on
whatever random call sequences happen to produce.  Committed and reviewed; the checks never regenerate it."""
import json, os, sys
sys.path.insert(0, "/verif")
os.environ.setdefault("VF_SCRATCH", "/tmp/vf-mkss"); os.makedirs(os.environ["VF_SCRATCH"], exist_ok=True)
from vf import tlc
cases, _ = tlc.enumerate_cases("MC_Session", "MC_Session_states.cfg")
by = {}
for c in cases:
    if c["reparsed"] or "labeled_trace" in c["hist"]:
        continue
    key = tuple(sorted(c["cols"]))
    by.setdefault(key, []).append(c["hist"])
out = []
for key, hs in sorted(by.items()):
    m = min(len(h) for h in hs)
    short = sorted({tuple(h) for h in hs if len(h) == m})
    out.append({"cols": list(key), "histories": [list(h) for h in short][:12]})
json.dump(out, open("/verif/vf/session_states.json", "w"), indent=1)
print(len(cases), "model states,", len(out), "distinct frame states")
for o in out:
    print(o["cols"], len(o["histories"]), o["histories"][0])
