#!/usr/bin/env python3
"""Seeded regressions written by independent sub-agents (they never saw /verif).
  tools/seeded.py confirm C04 a     verify in the agent's scratch worktree: demo passes without / fails with the change, the 87-test
                                    baseline still passes with it; then store it as /verif/seeded/C04-a/{patch.diff,demo.py,meta.json}
  tools/seeded.py detect [C04-a..]  for each stored change: fresh worktree of /repo HEAD under /tmp, apply the patch, run the quick check
                                    of the property against that worktree (VF_REPO), record caught/missed in meta.json, remove the worktree
"""
import json, os, shutil, subprocess, sys, tempfile, time, xml.etree.ElementTree as ET

VERIF = os.path.dirname(os.path.dirname(os.path.abspath(__file__)))
SEEDED = os.path.join(VERIF, "seeded")


def sh(cmd, **kw):
    return subprocess.run(cmd, stdout=subprocess.PIPE, stderr=subprocess.STDOUT, text=True, **kw)


def baseline_in(wt):
    base = json.load(open("/root/.vp/BASELINE.json"))
    with tempfile.TemporaryDirectory() as d:
        junit = os.path.join(d, "j.xml")
        env = dict(os.environ, PYTHONPATH=wt)
        env.pop("HTA_VERIF", None)
        sh(["/venv/bin/python", "-m", "pytest", "-q", "-p", "no:cacheprovider", "--timeout=900", "--continue-on-collection-errors",
            f"--junitxml={junit}"], cwd=wt, env=env)
        passed = set()
        for tc in ET.parse(junit).getroot().iter("testcase"):
            if not any(c.tag in ("failure", "error", "skipped") for c in tc):
                passed.add(f"{tc.get('classname')}::{tc.get('name')}")
    return [t for t in base["stable_pass"] if t not in passed]


def confirm(pid, x, rnd=1):
    wt = f"/tmp/wt/{pid}"
    src = f"/tmp/seeded/{pid}" if rnd == 1 else f"/tmp/seeded{rnd}/{pid}"
    patch, demo = f"{src}/{x}.diff", f"{src}/demo_{x}.py"
    assert os.path.exists(patch) and os.path.exists(demo), (patch, demo)
    sh(["git", "checkout", "--", "."], cwd=wt)
    env = dict(os.environ, PYTHONPATH=wt, PYTHONHASHSEED="0")
    r0 = sh(["/venv/bin/python", demo], cwd=wt, env=env)
    ap = sh(["git", "apply", patch], cwd=wt)
    assert ap.returncode == 0, ap.stdout
    try:
        r1 = sh(["/venv/bin/python", demo], cwd=wt, env=env)
        missing = baseline_in(wt)
    finally:
        sh(["git", "checkout", "--", "."], cwd=wt)
        sh(["git", "clean", "-fdq"], cwd=wt)
    ok = r0.returncode == 0 and r1.returncode != 0 and not missing
    print(f"{pid}-{x} (round {rnd}): demo without change rc={r0.returncode}, with change rc={r1.returncode}, baseline missing={len(missing)} -> {'CONFIRMED' if ok else 'REJECTED'}")
    if not ok:
        print(r0.stdout[-600:], r1.stdout[-600:], missing[:5])
        return False
    out = os.path.join(SEEDED, f"{pid}-{x}" if rnd == 1 else f"{pid}-{rnd}{x}")
    os.makedirs(out, exist_ok=True)
    shutil.copy(patch, os.path.join(out, "patch.diff"))
    shutil.copy(demo, os.path.join(out, "demo.py"))
    notes = open(f"{src}/notes.md").read() if os.path.exists(f"{src}/notes.md") else ""
    meta = {"property": pid, "variant": x, "author": "independent sub-agent (saw only the property text and a scratch worktree)",
            "confirmed": {"demo_rc_without_change": r0.returncode, "demo_rc_with_change": r1.returncode,
                          "stable_baseline_tests_failing_with_change": 0,
                          "how": "tools/seeded.py confirm: demo run in the scratch worktree before/after `git apply`, 87-test baseline via pytest --junitxml"},
            "needs_to_manifest": "see notes.md", "detected_by": {}}
    json.dump(meta, open(os.path.join(out, "meta.json"), "w"), indent=1)
    open(os.path.join(out, "notes.md"), "w").write(notes)
    return True


def detect(names, extra_props=None):
    head = sh(["git", "-C", "/repo", "rev-parse", "--short", "HEAD"]).stdout.strip()
    res = []
    for name in names:
        d = os.path.join(SEEDED, name)
        meta = json.load(open(os.path.join(d, "meta.json")))
        wt = tempfile.mkdtemp(prefix="detect-", dir="/tmp/wt")
        os.rmdir(wt)
        a = sh(["git", "-C", "/repo", "worktree", "add", "--detach", wt, "HEAD"])
        assert a.returncode == 0, a.stdout
        try:
            ap = sh(["git", "apply", os.path.join(d, "patch.diff")], cwd=wt)
            if ap.returncode != 0:
                ap = sh(["git", "apply", "--3way", os.path.join(d, "patch.diff")], cwd=wt)
            if ap.returncode != 0:
                print(f"{name}: patch does not apply to {head}: {ap.stdout[-300:]}")
                meta["detected_by"][head] = "patch-does-not-apply"
                continue
            props = [meta["property"]] + (extra_props or [])
            for prop in props:
                t0 = time.time()
                r = sh([os.path.join(VERIF, "check"), prop, "--tier", "quick", "--no-mc"], cwd=VERIF, env=dict(os.environ, VF_REPO=wt))
                caught = r.returncode == 1 and f"VIOLATION property={prop}" in r.stdout
                viol = [l for l in r.stdout.splitlines() if l.startswith("VIOLATION")][:1]
                what = viol[0].split("[")[-1].rstrip("]") if viol else ""
                print(f"{'CAUGHT' if caught else 'MISSED'} {name} by {prop} rc={r.returncode} [{what}] ({time.time() - t0:.0f}s)")
                if not caught:
                    print("   " + "\n   ".join(r.stdout.strip().splitlines()[-3:]))
                meta["detected_by"].setdefault(prop, {})[head] = {"caught": caught, "clauses": what, "rc": r.returncode}
                res.append(caught)
        finally:
            sh(["git", "-C", "/repo", "worktree", "remove", "--force", wt])
            if not os.environ.get("SEEDED_NO_META"):
                json.dump(meta, open(os.path.join(d, "meta.json"), "w"), indent=1)
    print(f"{sum(res)}/{len(res)} caught")


if __name__ == "__main__":
    if sys.argv[1] == "confirm":
        sys.exit(0 if confirm(sys.argv[2], sys.argv[3], int(sys.argv[4]) if len(sys.argv) > 4 else 1) else 1)
    elif sys.argv[1] == "detect":
        names = sys.argv[2:] or sorted(os.listdir(SEEDED))
        detect(names)
