#!/usr/bin/env python3
"""Writes /verif/MANIFEST.json from the table below (single place to edit)."""
import json, os, subprocess
HERE = os.path.dirname(os.path.dirname(os.path.abspath(__file__)))

TB = ("TLC and the CommunityModules JSON reader; the Python generator/projection (column selection, base subtraction, "
      "float -> scaled int); pandas/numpy/networkx; the vocabulary tables in TraceModel.tla")

CHECKS = {
 "C04": dict(
    technique="TLA+ model (MC_Breakdown: merge + sweep, all tie orders) checked by TLC + TLC trace validation of get_temporal_breakdown outputs (Trace_Breakdown)",
    text="TLC exhausts every multiset of <=3 activities (4 classes, grid 0..3, durations 0..2) and every order an unstable sort may give equal keys, with loop invariants per iteration; 300 (quick) / 4000 (thorough) generated traces are run through TraceAnalysis.get_temporal_breakdown and every output is checked by TLC against the declarative cell-counting operators the model uses; 30% of the cases make 1-3 other public calls on the object first (behaviours of Session.tla). All 454 interval multisets of MC_MergeEmit are replayed into merge_kernel_intervals.",
    note="Exhaustive only in the small scope; beyond it sampled. Inputs to the analyzer are taken from the loaded frames. " + TB,
    ref="DESIGN.md section 5 (C04)"),
 "C07": dict(
    technique="TLA+ model (MC_Breakdown: per-class merge, +1/+2 marker sweep, all tie orders) checked by TLC + TLC trace validation of get_comm_comp_overlap outputs",
    text="Same model as C04/C05 (invariant C07_Overlap: accumulated time under mask 3 = cells covered by both classes, for every tie order); generated traces through TraceAnalysis.get_comm_comp_overlap, reported percentage checked by TLC against OverlapTime/CommTime with the two-decimal rounding tolerance.",
    note="Ratio checked only when communication time > 0. " + TB,
    ref="DESIGN.md section 5 (C07)"),
 "C01": dict(
    technique="TLA+ loader pipeline model (MC_Load: Parse/Align/Trim/Index, rounding lemma) checked by TLC + TLC trace validation (Trace_Load) of parse-only and fully loaded frames against the file image",
    text="TLC exhausts the pipeline over a menu of rank files (half-microsecond ticks, optional steps/launch/kernel, 1-2 ranks with skew) with invariants Faithful, MinTsMeaning, EndIsTsPlusDur, NoTrimNoLoss, Rounding; 200/3000 generated file sets (1-4 ranks, mixed formats, fractional timestamps, epoch offsets up to 1.7e15) are parsed (sequentially and by the process pool) and loaded by the real code and every row is compared by TLC with the declarative image Image(F,u), the shift constant MinTs and end = ts + dur. In addition the object model Session.tla (15 public calls; 3375 histories of three calls enumerated by TLC) is replayed on real TraceAnalysis objects (120/1500 histories): after every call the loader's columns must be intact and the derived columns those the model predicts (Trace_Session). MC_Sessions (two live objects, all interleavings of three calls: Isolated, Commute) is model-checked here; its histories are replayed under the analyzer properties.",
    note="Name/category decoding via the real symbol table; base subtraction and JSON handling by the harness with exact arithmetic. " + TB,
    ref="DESIGN.md section 5 (C01)"),
 "C02": dict(
    technique="TLA+ model of the correlation-to-link transformation (MC_Links) checked by TLC over all traces <=4-5 events + TLC trace validation of index_correlation on parsed and loaded frames (Trace_Load, operator LinkOf)",
    text="TLC enumerates every trace of <=4 (thorough 5) events over host ops, runtime calls, kernels, device-wide and stream synchronisation records with correlation ids reused across sides, in the WellFormed domain, and checks LinkMeaning/Mutual/Monotone on the transcribed sentinel+join algorithm; 300/5000 generated traces with missing launches/kernels are loaded and every row's link is checked by TLC against LinkOf.",
    note="WellFormed is re-evaluated by TLC on every recorded frame (a record outside the domain is a harness failure, not a violation). " + TB,
    ref="DESIGN.md section 5 (C02)"),
 "C12": dict(
    technique="TLA+ loader pipeline model (MC_Load: Trim with the end column as the code reads it) checked by TLC + TLC trace validation of iteration numbers, kept id sets, get_iterations, get_profiler_steps (Trace_Load)",
    text="MC_Load invariants TrimMeaning and IterMeaning over all menu files, both include_last settings and 1-2 ranks; 300/5000 generated traces with 0-3 steps, gaps, events at step boundaries are loaded with include_last_profiler_step on/off and TLC compares the kept ids with Kept(rows, incl), the iteration column with IterOf and the getters with the rows.",
    note="Domain adds: all ranks share the step numbers, step spans disjoint and positive (checked by TLC per record). Iteration of Event/Context Sync rows not asserted. " + TB,
    ref="DESIGN.md section 5 (C12)"),
 "C14": dict(
    technique="TLA+ signed-marker counter model (MC_Counters: every tie order of the sort, launch-first tie key) checked by TLC + TLC trace validation of queue-length / memory-bandwidth series and of the counter events read back from the *_with_counters file (Trace_Counters)",
    text="TLC exhausts all multisets of <=3 (thorough 4) items on two keys with weights {1,2} on the grid 0..3 and every admissible row order, invariants NonNeg / EndOfInstant / EndsAtZero at every row; 300/4000 generated traces (launch = kernel start ties, zero-length copies, 1-3 ranks, rank subsets) are run through get_queue_length_time_series, get_memory_bw_time_series and generate_trace_with_counters and TLC checks every series row and every written counter event against CounterAt over the recorded frame.",
    note="Bandwidths in generated files are multiples of 1/4 (exact after x64 scaling). " + TB,
    ref="DESIGN.md section 5 (C14)"),
 "C15": dict(
    technique="TLA+ link model (MC_Links) checked by TLC + TLC trace validation of get_cuda_kernel_launch_stats rows against RequiredStats/OptionalStats (Counters.tla)",
    text="The join the statistics rest on is the correlation link relation model-checked in MC_Links; 300/4000 generated traces (kernel, memcpy, memset launches, unrelated runtime calls, missing partners, rank subsets, include_memory_events on/off) are analysed by the real code and TLC compares the returned rows with one row per linked pair (durations, delay floored at 0).",
    note="Driver-API / HIP launches are accepted both listed and unlisted. " + TB,
    ref="DESIGN.md section 5 (C15)"),
 "C06": dict(
    technique="TLA+ model of the idle classification incl. the launch-time join (MC_Idle) checked by TLC + TLC trace validation of get_idle_time_breakdown (Trace_Counters, IdleSum / StreamSpanMinusBusy)",
    text="TLC exhausts all strict-FIFO arrangements of 3 kernels on two streams (linked with any earlier launch start, or unlinked), every start of event 0 and thresholds {1,2}: invariants IdleMeaning, IdleAddsUp, UnlinkedNeverHostWait; 300/4000 generated traces with unlinked kernels, boundary gaps (threshold-1, threshold, 0), stream subsets and thresholds {1,2,5,30,31} through the real API, every (stream, category) sum and ratio checked by TLC.",
    note="Domain: WellFormed rows and strict per-stream FIFO (no overlap, no shared start instant), re-evaluated by TLC per record. " + TB,
    ref="DESIGN.md section 5 (C06)"),
 "C03": dict(
    technique="TLA+ model of the endpoint order and the stack machine of both call-stack builders (CallStack.tla LessKey, MC_CallStack) checked by TLC over every laminar family of <=4 (thorough 5) spans + replay of all 1054 small-model families into sort_events / the old builder + TLC trace validation of both builders and of CallGraph against the declarative tree (Trace_CallStack)",
    text="TLC checks, for every properly nested family on the grid 0..3 (thorough 0..4) with every id assignment, including zero-duration events at instants where spans touch, that the key order both builders use is a strict total order, that closes pop their own event (LIFO), that the machine's parents/depths equal the declarative tree (innermost enclosing positive span; identical spans in file order; touching spans siblings; zero-duration events under a closed-span container) and that neighbouring endpoints satisfy the pairwise comparator the builder re-checks (AdjacentLess). The pairwise comparators that remain in the code are model-checked on the shapes where they are consistent; the d6 and trunc configurations make TLC exhibit the two repaired defects (D6: non-transitive comparator, D22: truncated span ends). 400/5000 generated thread families (dense tie grids, every tenth with quarter-microsecond durations, and program-simulated threads incl. two processes sharing a tid) go through trace_call_stack.CallStackGraph, call_stack.CallStackGraph and one CallGraph over all ranks; TLC judges every returned (parent, depth). All 576 endpoint pairs of MC_Comparators are replayed into _less_than / compare_events and all 1054 families of the small model into sort_events and the old builder (transcription binding).",
    note="No known finding is left: D6 was repaired (55deb4b) after the key order had been model-checked. " + TB,
    ref="DESIGN.md section 5 (C03)"),
 "C13": dict(
    technique="TLA+ model of the bottom-up decoration passes and of backward re-parenting (MC_CallGraphAttrs) checked by TLC over all small forests + TLC trace validation of the stack columns and get_stack_of_node (Trace_CallStack/CallGraphAttrs)",
    text="TLC explores every forest of 3 (thorough 4) host nodes and 2 (3) device activities, every post-order of the passes and one optional re-parenting, with invariants AttrsMeaning and PartialCounts; 200/3000 generated multi-thread traces (autograd thread, backward annotations, shifted timestamps) are loaded through TraceAnalysis + CallGraph and TLC checks device parents, depth, height, the five kernel aggregates with their defaults, backward linking and get_stack_of_node against the returned tree.",
    note="Name classes are computed by the harness. " + TB,
    ref="DESIGN.md section 5 (C13)"),
 "C16": dict(
    technique="TLA+ call-graph model (MC_CallGraphAttrs, kernel descendants) checked by TLC + TLC trace validation of get_frequent_cuda_kernel_sequences against Instances/PatternOf/PatCount (CallGraphAttrs.tla)",
    text="150/2000 generated traces with repeated operator names at several depths; for a drawn operator name, min_pattern_len in {1,2,3} and top_k in {1,5} the returned table is compared by TLC with: instances = matching events at the shallowest matching depth with enough kernel descendants, pattern = name + descendant kernel names in start order, count/CPU/GPU sums, descending-count order.",
    note="Descendants are taken from the call graph's parent column (bound by C13); substring match done by the harness; cases where two device activities share a start time are redrawn. " + TB,
    ref="DESIGN.md section 5 (C16)"),
 "C05": dict(
    technique="TLA+ merge + bit-mask sweep model (MC_Breakdown, invariant C05_TypeTable, all tie orders) checked by TLC + TLC trace validation of get_gpu_kernel_breakdown (type table and per-kernel table) in Trace_Breakdown",
    text="The sweep model (shared with C04/C07) proves for every small multiset and tie order that the accumulated time per running mask equals the time during which exactly that combination runs; 300/4000 generated traces x num_kernels {1,2,3,10} x duration_ratio {0.1,0.5,0.8,1} x include_memory_kernels are run through the real API and TLC checks every type row (Exactly summed over ranks, total, percentages) and, per (rank, type): conservation of the sums incl. 'others', the bound on named rows, and sum/min/max/mean of every named row; a quarter of the cases go through the aggregator's second entry point get_gpu_user_annotation_breakdown (CPU or GPU annotations, allow-list on/off).",
    note="Which names are folded into 'others' is left open (the statement does not fix it). " + TB,
    ref="DESIGN.md section 5 (C05)"),
 "C17": dict(
    technique="TLA+ partition-law model of the five change-class predicates (MC_Diff) checked by TLC + TLC trace validation of TraceDiff.compare_traces / ops_diff against CountOf / DurOf / ClassOfCounts (Diff.tla)",
    text="TLC checks over all count tables (3 names, counts 0..3) that the predicates ops_diff applies are pairwise disjoint, covering and equal to the declarative classes; 120/1500 generated pairs of trace sets (1-3 ranks, 1-3 steps, rank and iteration selections incl. proper subsets, CPU/GPU/ALL, long/short names, self-comparison through two objects and through the same object) go through the real API and TLC recomputes every row and class from the parsed frames.",
    note="Frames, iteration numbers and durations are those LabeledTrace parses; short names via the ShortName table in TraceModel.tla. " + TB,
    ref="DESIGN.md section 5 (C17)"),
 "C18": dict(
    technique="TLA+ filter algebra (Filters.tla: predicates, Apply, Composite) with laws model-checked by TLC (MC_Filters) + TLC trace validation of every filter class, composites and nested calls on real frames (Trace_Filters)",
    text="TLC checks over every frame of <=2 (thorough 3) menu rows, both symbol-table modes and every sequence of <=2 filters: Selection, FoldMeaning, Idempotent and Commute for row-local filters, and exhibits the frame on which the position-based iteration filter does not commute (MC_Filters_iteridx.cfg); 150/2000 generated frames in three name representations x 8 applications (single, twice, both orders, composites/nested of 2-3 members) go through the real filter classes; TLC compares the returned ids, order and per-row content hashes with Composite(fs, frame) and checks the input is unmodified.",
    note="Pattern matching through the committed NameTable.tla; content equality through a harness-computed hash over all columns. " + TB,
    ref="DESIGN.md section 5 (C18)"),
 "C11": dict(
    technique="TLA+ symbol-table and multi-rank loading model (MC_SymbolTable: all numberings, queue interleavings, worker completion orders) checked by TLC + TLC-simulated operation histories replayed into TraceSymbolTable and validated step by step + TLC trace validation of loads under several hash seeds / pool modes / forced schedules / renumberings (Trace_SymbolTable)",
    text="TLC checks Bijection in every state, the action property that ids never change, and DecodeAfterLoad for every permutation of every rank's local numbering, every worker finishing order and 3 ranks over a 3-symbol vocabulary; TLC-simulated histories of add_symbols / add_symbols_mp / clone / combine are executed on the real class and every recorded step must be a step the spec allows (for add_symbols_mp: some order-preserving interleaving), with sym_index inverting sym_table; 24/200 generated rank-file sets are loaded in separate interpreters under PYTHONHASHSEED 0-3, pool on/off, forward/backward forced completion (HTA_VERIF hook), and after random renumbering: decoded strings must equal the file's, and digests of frames and of nine analysis outputs must coincide.",
    note="'Every hash seed' = all numberings in the model + four real seeds + random renumberings; output equality through harness-computed digests (order-sensitive). " + TB,
    ref="DESIGN.md section 5 (C11)"),
 "C08": dict(
    technique="TLA+ transcription of the critical-path graph builder (MC_CriticalPath: one action per kernel-loop row, all tie orders) checked by TLC + every program of the model replayed into the real builder (graphs must coincide) + TLC trace validation of real graphs clause by clause (Trace_CriticalPath)",
    text="TLC explores every causally consistent single-thread program of 3 runtime calls (launches onto two streams, stream and device synchronisation) on a grid 0..3 with every kernel / sync-record placement and every tie order of the kernel loop: invariants GraphAcyclic, GraphForward, GraphWeights, LaunchShape, K2KShape, SyncShape (the prefix configuration without the guard makes TLC find the cycle D12 and the backward sync edge D18). All 1704 (thorough: 5174) behaviours of the 2-call (3-call) model are enumerated and every distinct program is run through TraceAnalysis.critical_path_analysis: the real edge set must equal one of the model's graphs for that program. 200/2500 generated multi-thread traces (nested operators, blocking calls, 4 sync kinds, 0-3 steps, every annotation window / instance range present, zero-weight launch option) are analysed and TLC checks success, one start/end node per analysed event with its times, acyclicity, forward edges, the weight rule, non-negativity and the shape of launch / kernel-kernel / sync / span / dependency edges.",
    note="Domain (re-evaluated by TLC): WellFormed rows, strict per-stream FIFO, launch-causal and sync-causal. Event-based sync edges are inert in this environment (O2). " + TB,
    ref="DESIGN.md section 5 (C08)"),
 "C09": dict(
    technique="TLA+ longest-path model (MC_LongestPath: all weighted DAGs of 4-5 nodes, networkx tie-breaking transcribed, token walk) checked by TLC + TLC trace validation of reported paths and of what-if re-weighted copies (Trace_CriticalPath: Relax / PathWeight)",
    text="TLC checks on every DAG of 4 nodes with weights {0,1,2} (thorough: 5 nodes, {0,2}) that the layered relaxation equals the brute-force maximum over all paths, that every walk stays below it, and that the transcribed dag_longest_path (with the fallback for all-zero graphs) reports a connected optimal path of >= 2 nodes; 150/2500 real graphs plus two re-weighted copies each (30% of weights changed, critical_path() recomputed) are validated: connected, weight = LongestWeight, <= makespan, events/edges sets exactly those of the path.",
    note="Optimality uses the weights the algorithm reads (networkx attribute). " + TB,
    ref="DESIGN.md section 5 (C09)"),
 "C10": dict(
    technique="TLC trace validation of get_critical_path_breakdown / summary / attribution map against declarative attribution and bound-by rules (CriticalPath.tla), on graphs whose builder is model-checked in MC_CriticalPath / MC_LongestPath",
    text="150/2500 analysed traces: one breakdown row per critical edge with the edge's weight and type, durations adding up to the path weight, every span edge attributed to an existing event of the same thread (or the same device activity) whose span covers the edge's time range, kernel-kernel delays to the preceding kernel, the bound-by class of every row, and summary shares = class sums / total adding up to 100. 60 % of the cases continue with a history on the same graph object: a what-if edit of the live graph, critical_path() again, breakdown and summary read again - every clause must hold for the edited graph and the recomputed path (after_recompute).",
    note="Communication kernels are recognised through the vocabulary table CommNames. " + TB,
    ref="DESIGN.md section 5 (C10)"),
 "C19": dict(
    technique="TLA+ persistence state machine (Persist / MC_Persist: save, restore, recompute, save-restored, reweight over two slots) checked by TLC; its enumerated histories are executed on real CPGraph objects and every observed projection is validated step by step by TLC (Trace_Persist)",
    text="TLC explores every history of 5 operations over two save slots (RestoredIsSaved, DiskNeverAhead) and prints them; 200/2000 real graphs (45 % with several longest paths) each execute one enumerated history through CPGraph.save / restore_cpgraph / critical_path() / what-if re-weighting; after every operation digests of (nodes, edges, weights, types, attributions), of (path, event set, edge set), of the breakdown table and the path weight are recorded and TLC advances the abstract state: a restored object must equal what the slot held, saving must not change the object, recomputation must keep graph and path weight.",
    note="Digests computed by the harness from the projected objects; analysis failures are C08's business and redrawn. " + TB,
    ref="DESIGN.md section 5 (C19)"),
 "C20": dict(
    technique="TLA+ model of the file writers (TraceFiles / MC_TraceFiles: WithCounters, Overlay, RoundTrip, UpdateRank) checked by TLC + TLC trace validation of the files the real tool wrote (Trace_Files)",
    text="TLC checks on every source of <=2 entries, every critical set and every set of drawn edges that the writers satisfy OnlyAppended / MarkedExactly / Filter / FlowPairs / FlowPlacement; 120/1500 cases: generated traces through generate_trace_with_counters and overlay_critical_path_analysis with all four option combinations (entries canonicalised and interned: source entries unchanged and in order, only counters / flow arrows appended, critical marker exactly on the path's events, one s/f pair per drawn edge on the pid/tid of the joined events), and write_trace/read_trace round trips, update_trace_rank with ranks 0..1000, create_rank_to_trace_dict on 1-4 files in both formats (again after the rank update, incl. files padded so that the rank digits straddle a block boundary), and generate_trace_with_counters for several ranks in one call. Round-6 histories: rank discovery over the files generate_trace_with_counters has just written (written_keeps_rank), and the all-edges overlay written three times with CRITICAL_PATH_SHOW_ZERO_WEIGHT_LAUNCH_EDGE unset / 1 / 0 in one process.",
    note="Files are opened by magic bytes (gzip data under a .json name, observation O1). " + TB,
    ref="DESIGN.md section 5 (C20)"),
}

NOT_YET = {}

INP_IDS = {"C04", "C05", "C06", "C07", "C08", "C13", "C14", "C15", "C16"}
INP = (" Input binding: TLC also requires (clause input_faithful) that the loaded rows the analysis worked on still say what the input file said "
       "(name, category, stream of the entry at each id; every complete entry present when nothing is trimmed; the link column equal to the "
       "file's link relation), so a wrong loader is reported here as a violation rather than as an out-of-domain input.")
ISO_IDS = {"C04", "C05", "C06", "C07", "C08", "C09", "C10", "C11", "C13", "C14", "C15", "C16", "C17", "C20"}
ISO = (" Object isolation (Sessions.tla / MC_Sessions, invariants Isolated, Commute): 24/200 TLC-simulated interleaved histories of public calls on two "
       "live TraceAnalysis objects whose files share a folder are replayed; TLC (Trace_Sessions) requires every call of this property to return "
       "what the same call returns in a fresh interpreter that only ever saw that object, and every returned value to be unchanged when digested "
       "again after the whole history.")

def main():
    props = [json.loads(l) for l in open(os.path.join(HERE, "properties.jsonl"))]
    checks, na = [], []
    for p in props:
        pid = p["id"]
        if pid in CHECKS:
            c = CHECKS[pid]
            checks.append({
                "property_id": pid,
                "quick_cmd": f"./check {pid} --tier quick",
                "thorough_cmd": f"./check {pid} --tier thorough",
                "evidence_file": f"/verif/evidence/{pid}.json",
                "replay_cmd_template": f"./check {pid} --replay {{path}}",
                "engine": "tlc+vf",
                "level_claimed": {"category": "model_checking", "text": c["text"] + (INP if pid in INP_IDS else "") + (ISO if pid in ISO_IDS else ""), "design_ref": c["ref"]},
                "level_note": c["note"],
                "technique": c["technique"],
            })
        else:
            na.append({"property_id": pid, "reason": NOT_YET.get(pid, "check not built yet in this round (planned, see DESIGN.md section 5); not a claim that the technique cannot apply")})
    commits = subprocess.run(["git", "-C", "/repo", "log", "--format=%h %s", "f113ba0..HEAD"], stdout=subprocess.PIPE, text=True).stdout.strip().splitlines()
    man = {
        "version": 1,
        "setup_cmd": "./setup.sh",
        "hooks": {
            "guard": "HTA_VERIF",
            "enable": "HTA_VERIF=1 in the environment of the harness worker processes (vf/hta.py:setup); /repo is imported from its working tree, nothing is built",
            "baseline_off_cmd": "python3 /verif/tools/baseline.py",
            "source_commits": [c for c in commits if " hook:" in c or "verif hook" in c],
            "add_only": True,
        },
        "engines": [
            {"name": "tlc+vf", "path": "/verif/check", "serves_properties": sorted(CHECKS),
             "kind_free_text": "explicit TLA+ specifications in /verif/spec checked by TLC (exhaustive small-scope model checking of the mechanisms, all tie orders) bound to the code by TLC trace validation of observations recorded from the real public API and by replay of TLC-enumerated cases into the real code"}
        ],
        "checks": checks,
        "not_applicable": na,
        "notes": "fix: commits in /repo: " + "; ".join(c for c in commits if " fix:" in c),
    }
    json.dump(man, open(os.path.join(HERE, "MANIFEST.json"), "w"), indent=1)
    print(f"MANIFEST.json: {len(checks)} checks, {len(na)} not claimed")

if __name__ == "__main__":
    main()
