"""Child process of the C11 check: loads one trace directory under the PYTHONHASHSEED / pool / schedule given by the parent,
optionally renumbers the loaded symbol table, and prints one JSON line with what was observed."""
from __future__ import annotations

import gzip
import hashlib
import json
import os
import random
import sys


def _canon(df) -> str:
    import pandas as pd
    if df is None:
        return "None"
    if isinstance(df, dict):
        return json.dumps({str(k): _canon(v) for k, v in sorted(df.items())})
    if isinstance(df, (list, tuple)):
        return json.dumps([_canon(x) if hasattr(x, "columns") else x for x in df], default=str)
    rank_keyed = "rank" in [str(c) for c in df.columns] and isinstance(df.index, pd.RangeIndex)
    d = df.reset_index(drop=rank_keyed)
    d = d.copy()
    d.columns = [str(c) for c in d.columns]
    if "rank" in d.columns:
        # per-rank tables list the ranks in the insertion order of Trace.traces, which follows the call history (a rank parsed alone first comes
        # first); the rows are keyed by their rank column, so tables are compared as rank-keyed row sets (observation O3 in DESIGN.md)
        d = d.sort_values("rank", kind="stable")
    rows = list(json.dumps([None if (isinstance(v, float) and v != v) else (round(v, 6) if isinstance(v, float) else str(v)) for v in r]) for r in d.itertuples(index=False))
    return json.dumps([list(d.columns), rows])


def main() -> None:
    d, mp, renum = sys.argv[1], sys.argv[2] == "1", sys.argv[3]
    sys.path.insert(0, os.environ.get("VF_REPO", "/repo"))
    sys.path.insert(0, os.path.dirname(os.path.dirname(os.path.abspath(__file__))))
    from vf import hta
    hta.setup()
    out = {"seed": int(os.environ.get("PYTHONHASHSEED", "0") or 0), "mp": mp, "renum": renum, "order": os.environ.get("VF_ORDER", ""), "err": "",
           "table": [], "ranks": [], "frames": "", "outputs": ""}
    try:
        from hta.common.trace import Trace
        from hta.common.trace_symbol_table import TraceSymbolTable
        from hta.trace_analysis import TraceAnalysis
        mapping = os.environ.get("VF_C11_MAPPING", "")
        files = {int(k): v for k, v in json.loads(mapping).items()} if mapping else None
        hist = os.environ.get("VF_C11_HIST", "")
        out["hist"] = hist
        out["growOk"] = True
        if hist.startswith("grow"):
            # the first rank parsed, then the rank with the largest file parsed alone; afterwards everything is loaded as usual
            ta = TraceAnalysis.__new__(TraceAnalysis)
            ta.t = Trace(trace_files=files, trace_dir=d)
            ta.t.parse_traces(max_ranks=1, use_multiprocessing=False)
            r0 = sorted(ta.t.traces)[0]
            tab1 = list(ta.t.symbol_table.get_sym_table())
            dec1 = [(tab1[int(a)], tab1[int(b)]) for a, b in zip(ta.t.traces[r0]["name"], ta.t.traces[r0]["cat"])]
            big = max((r for r in ta.t.trace_files if r != r0), key=lambda r: os.path.getsize(ta.t.trace_files[r]))
            ta.t.parse_single_rank(big)
            tab2 = list(ta.t.symbol_table.get_sym_table())
            dec2 = [(tab2[int(a)], tab2[int(b)]) for a, b in zip(ta.t.traces[r0]["name"], ta.t.traces[r0]["cat"])]
            out["growOk"] = bool(tab2[:len(tab1)] == tab1 and dec1 == dec2)
            # ... then all the other ranks parsed in ONE further call (sequentially or by the pool): still append-only, rank r0 still decodes
            rest = [r for r in sorted(ta.t.trace_files) if r != r0]
            ta.t.parse_multiple_ranks(rest, use_multiprocessing=mp and len(rest) > 1)
            tab3 = list(ta.t.symbol_table.get_sym_table())
            dec3 = [(tab3[int(a)] if int(a) < len(tab3) else None, tab3[int(b)] if int(b) < len(tab3) else None)
                    for a, b in zip(ta.t.traces[r0]["name"], ta.t.traces[r0]["cat"])]
            out["growOk"] = bool(out["growOk"] and tab3[:len(tab2)] == tab2 and dec1 == dec3)
            ta.t.is_parsed = False
            ta.t.load_traces(use_multiprocessing=mp)
        elif hist == "decoy":
            # another trace set loaded and analysed first in this interpreter (results discarded)
            other = TraceAnalysis(trace_dir=os.environ["VF_C11_DECOY"])
            for fn in (lambda: other.get_temporal_breakdown(visualize=False), lambda: other.get_comm_comp_overlap(visualize=False),
                       lambda: other.get_gpu_kernel_breakdown(visualize=False, num_kernels=2, include_memory_kernels=True),
                       lambda: other.get_idle_time_breakdown(ranks=sorted(other.t.traces)[:1], visualize=False),
                       lambda: other.get_queue_length_time_series(ranks=sorted(other.t.traces)),
                       lambda: other.get_memory_bw_time_series(ranks=sorted(other.t.traces)),
                       lambda: other.get_cuda_kernel_launch_stats(ranks=sorted(other.t.traces), visualize=False)):
                try:
                    fn()
                except Exception:
                    pass
            ta = TraceAnalysis.__new__(TraceAnalysis)
            ta.t = Trace(trace_files=files, trace_dir=d)
            ta.t.load_traces(use_multiprocessing=False)
        elif hist != "":
            ta = TraceAnalysis.__new__(TraceAnalysis)
            ta.t = Trace(trace_files=files, trace_dir=d)
            ta.t.parse_single_rank(sorted(ta.t.trace_files)[int(hist)])
            ta.t.load_traces(use_multiprocessing=mp)
        elif mp:
            ta = TraceAnalysis(trace_files=files, trace_dir=d)
        else:
            ta = TraceAnalysis.__new__(TraceAnalysis)
            ta.t = Trace(trace_files=files, trace_dir=d)
            ta.t.load_traces(use_multiprocessing=False)
        if renum != "none":
            old = ta.t.symbol_table
            syms = list(old.get_sym_table())
            random.Random(renum).shuffle(syms)
            new = TraceSymbolTable()
            new.add_symbols(syms)
            for r in ta.t.traces:
                new.update_encoded_df(ta.t.traces[r], old)
            ta.t.symbol_table = new
        st = ta.t.symbol_table
        out["table"] = list(st.get_sym_table())
        idx = st.get_sym_id_map()
        assert all(idx[s] == k for k, s in enumerate(out["table"])) and len(idx) == len(out["table"]), "sym_index does not invert sym_table"
        h = hashlib.sha1()
        for r in sorted(ta.t.traces):
            df = ta.t.get_trace(r).sort_index()
            names = [out["table"][int(x)] for x in df["name"]]
            cats = [out["table"][int(x)] for x in df["cat"]]
            ids = [int(x) for x in df["index"]]
            path = ta.t.trace_files[r]
            raw = open(path, "rb").read()
            data = json.loads(gzip.decompress(raw) if raw[:2] == b"\x1f\x8b" else raw)
            ev = data["traceEvents"]
            out["ranks"].append({"rank": int(r), "names": names, "cats": cats, "filenames": [ev[k]["name"] for k in ids], "filecats": [ev[k]["cat"] for k in ids]})
            cols = [c for c in df.columns if c not in ("name", "cat")]
            h.update(_canon(df[cols]).encode())
            h.update(json.dumps([names, cats]).encode())
        out["frames"] = h.hexdigest()
        ranks = sorted(ta.t.traces)
        res = []
        for fn in (lambda: ta.get_temporal_breakdown(visualize=False), lambda: ta.get_comm_comp_overlap(visualize=False),
                   lambda: list(ta.get_gpu_kernel_breakdown(visualize=False, num_kernels=2, include_memory_kernels=True)),
                   lambda: ta.get_idle_time_breakdown(ranks=ranks[:1], visualize=False)[0],
                   lambda: ta.get_queue_length_time_series(ranks=ranks), lambda: ta.get_memory_bw_time_series(ranks=ranks),
                   lambda: ta.get_cuda_kernel_launch_stats(ranks=ranks, visualize=False), lambda: [ta.t.get_iterations(r) for r in ranks],
                   lambda: ta.get_profiler_steps(),
                   # the returned frame also carries the encoded id columns (numbering-dependent by nature): compare the decoded ones
                   lambda: [(lambda f: None if f is None else f[["index", "ts", "dur", "s_name", "s_user_annotation"]])(
                       ta.get_gpu_kernels_with_user_annotations(rank=r, expand_names=True)) for r in ranks]):
            try:
                res.append(_canon(fn()))
            except Exception as ex:
                res.append("EXC " + type(ex).__name__)
        out["outputs"] = hashlib.sha1(json.dumps(res).encode()).hexdigest()
        out["outputs_detail"] = [hashlib.sha1(x.encode()).hexdigest()[:8] for x in res]
    except BaseException as ex:
        out["err"] = hta.exc_str(ex)
    print("@@C11 " + json.dumps(out))


if __name__ == "__main__":
    main()
