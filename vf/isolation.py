"""Isolation of TraceAnalysis objects (spec/Sessions.tla, MC_Sessions.tla, Trace_Sessions.tla).

TLC simulates interleaved histories of public calls on two objects.  Each is replayed on two real TraceAnalysis objects whose (different)
trace files lie in the same folder under the same rank number; every call's result is digested.  The same calls are then made in fresh
interpreters that only ever saw one of the objects.  TLC validates the record: a call of the property under test returns the same thing in
both worlds, and the derived columns on each object's frames are those of the model.  This is what catches state kept where it does not
belong: class-level caches, results stored on the class, values remembered from the first object."""
from __future__ import annotations

import json
import os
import random
import subprocess
from concurrent.futures import ProcessPoolExecutor
from typing import Any, Dict, List, Tuple

from . import gen, hta, tlc

CHILD = os.path.join(os.path.dirname(os.path.abspath(__file__)), "iso_child.py")

# which public calls belong to which property
CHECKED = {
    "C04": ["temporal_breakdown"], "C07": ["comm_comp_overlap"], "C05": ["kernel_breakdown", "user_annotations"], "C06": ["idle_breakdown"],
    "C14": ["queue_length", "memory_bw"], "C15": ["launch_stats_mem", "launch_stats_nomem"], "C20": ["with_counters"],
    "C13": ["call_graph"], "C16": ["kernel_sequences"], "C08": ["critical_path"], "C09": ["critical_path"], "C10": ["critical_path"],
    "C17": ["labeled_trace"], "C11": ["decode_names"],
}


def _cfg(rng: random.Random) -> gen.GenCfg:
    return gen.GenCfg(n_ranks=1, n_steps=rng.choice([1, 2, 3]), p_launch=rng.choice([0.5, 0.8]), p_mem=0.3, p_comm=0.3, p_sync=rng.choice([0, 0.1]),
                      streams=rng.choice([(7,), (7, 9)]), max_children=rng.choice([2, 3]), base=rng.choice([0, 1000]), gpu_annotations=rng.random() < 0.5,
                      zero_len_same_start_ok=False, fmt="json.gz", corr_base=rng.choice([100, 100, 0]), bwd_thread=rng.random() < 0.3)


def _solo(d: str, fname: str, tag: str, ops: List[str]) -> Dict[str, Any]:
    env = dict(os.environ, PYTHONHASHSEED="0", HTA_VERIF="1")
    p = subprocess.run(["/venv/bin/python", CHILD, d, fname, tag, json.dumps(ops)], env=env, stdout=subprocess.PIPE, stderr=subprocess.PIPE, text=True)
    for line in p.stdout.splitlines():
        if line.startswith("@@ISO "):
            return json.loads(line[6:])
    raise RuntimeError(f"isolation child produced no record (rc={p.returncode}): {p.stderr[-600:]}")


def iso_job(arg: Tuple[str, int, int, List[Dict[str, str]]]) -> Tuple[Dict[str, Any], Dict[str, Any]]:
    pid, seed, k, hist = arg
    from . import session
    hta.setup()
    rng = random.Random(f"{seed}/iso/{pid}/{k}")
    a, b = gen.gen_trace_set(rng, _cfg(rng))[0], gen.gen_trace_set(rng, _cfg(rng))[0]
    case = {"id": f"{pid}-iso-{seed}-{k}", "kind": "isolation", "hist": hist, "A": a.__dict__, "B": b.__dict__, "trace_module": "Trace_Sessions"}
    return case, observe_iso(pid, case)


def observe_iso(pid: str, case: Dict[str, Any]) -> Dict[str, Any]:
    from . import session
    hist = case["hist"]
    obs: Dict[str, Any] = {"id": case["id"], "prop": pid, "err": "", "hist": [], "soloA": [], "soloB": [], "colsA": [], "colsB": [],
                           "checked": CHECKED.get(pid, [])}
    with hta.CaseDir("iso") as d:
        try:
            from hta.trace_analysis import TraceAnalysis
            files = {}
            for tag in ("A", "B"):
                rt = gen.RankTrace(**case[tag])
                sub = os.path.join(d, "w" + tag)
                p = gen.write_trace_set([rt], sub)[0]
                files[tag] = os.path.join(d, f"trace_{tag}.json.gz")      # same folder, both are "rank 0"
                os.replace(p, files[tag])
            objs = {}
            for tag in ("A", "B"):
                objs[tag] = TraceAnalysis(trace_files={0: files[tag]}, trace_dir=d)
            session.note_loader_columns(objs["A"])
            kept: List[Any] = []
            for step in hist:
                rec = session.run_ops(objs[step["obj"]], [step["op"]], os.path.join(d, "live_" + step["obj"]), retain=kept)[0]
                obs["hist"].append({"obj": step["obj"], "op": step["op"], "dig": rec["dig"], "err": rec["err"], "dig2": rec["dig"]})
            # every value a call returned is digested again now that the whole history has run
            for k, (step, (op, res)) in enumerate(zip(hist, kept)):
                if op not in session.SIDE_EFFECT_OPS and obs["hist"][k]["err"] == "":
                    try:
                        obs["hist"][k]["dig2"] = session.result_digest(op, objs[step["obj"]], res, d)
                    except BaseException as ex:
                        obs["hist"][k]["dig2"] = "error: " + hta.exc_str(ex)
            obs["colsA"], obs["colsB"] = session.derived_cols(objs["A"]), session.derived_cols(objs["B"])
            for tag in ("A", "B"):
                ops = [s["op"] for s in hist if s["obj"] == tag]
                if any(o in obs["checked"] for o in ops):
                    # with_counters writes next to the source file: the solo run gets its own copy of the folder's source file
                    solo = _solo(d, files[tag], tag, ops)
                    if solo["err"]:
                        raise RuntimeError("solo run failed: " + solo["err"])
                    obs["solo" + tag] = solo["steps"]
                else:       # nothing of this object is judged: the clause never looks at it
                    obs["solo" + tag] = [{"op": o, "dig": "", "err": ""} for o in ops]
        except BaseException as ex:
            obs["err"] = hta.exc_str(ex)
    return obs


def run(ctx) -> None:
    """Called from core.main after the property's own cases."""
    pid = ctx.prop.id
    if pid not in CHECKED:
        return
    n = 24 if ctx.tier == "quick" else 200
    hists = tlc.simulate_cases("MC_Sessions", "MC_Sessions_sim.cfg", num=3000 if ctx.tier == "quick" else 20000, depth=6, seed=ctx.seed + 7)
    want = set(CHECKED[pid])
    seen, keep = set(), []
    for h in hists:
        key = json.dumps(h)
        ops = [s["op"] for s in h]
        # a history is worth replaying if a call of this property follows a call on the OTHER object
        ok = any(h[j]["op"] in want and any(h[i]["obj"] != h[j]["obj"] for i in range(j)) for j in range(len(h)))
        if ok and key not in seen:
            seen.add(key)
            keep.append(h)
    random.Random(ctx.seed).shuffle(keep)
    keep = keep[:n]
    jobs = [(pid, ctx.seed, k, h) for k, h in enumerate(keep)]
    with ProcessPoolExecutor(max_workers=16, initializer=hta.setup) as ex:
        pairs = list(ex.map(iso_job, jobs, chunksize=1))
    before = ctx.validated
    ctx.validate_pairs(pairs, module="Trace_Sessions")
    ctx.validated = before
    ctx.replayed += len(pairs)
    ctx.extra_cov["isolation_histories_replayed"] = len(pairs)
    ctx.extra_cov["isolation_histories_simulated"] = len(hists)
