"""Check driver: model checking (M), cases through the real code validated by TLC (V), spec->code replay (R),
known findings, replay files, evidence."""
from __future__ import annotations

import hashlib
import importlib
import json
import os
import random
import shutil
import sys
import tempfile
import time
import traceback
from concurrent.futures import ProcessPoolExecutor
from typing import Any, Dict, List, Optional, Tuple

from . import tlc

VERIF = tlc.VERIF
OUT = os.path.join(VERIF, "out")
EVID = os.path.join(VERIF, "evidence")
KNOWN = os.path.join(VERIF, "known_findings.json")


class Prop:
    """Base class of a property check.  Subclasses live in vf/props/cXX.py as `PROP`."""
    id = "C00"
    trace_module = ""                      # Trace_X spec that validates observation records
    mc: List[Dict[str, Any]] = []          # [{module, quick, thorough, actions:[...]}]
    n_cases = {"quick": 200, "thorough": 2000}
    assumptions: List[str] = []
    rule = ""                              # how cases are generated / what makes one non-trivial
    par = 16

    def gen_case(self, rng: random.Random, k: int, tier: str) -> Dict[str, Any]:
        raise NotImplementedError

    def observe(self, case: Dict[str, Any]) -> Dict[str, Any]:
        raise NotImplementedError

    def nontrivial(self, case: Dict[str, Any], obs: Dict[str, Any]) -> bool:
        return True

    def extra(self, ctx: "Ctx") -> None:
        """Optional spec->code replay steps; report through ctx.add_replay / ctx.fail."""

    def prepare(self, ctx: "Ctx") -> None:
        """Optional step in the parent before the cases run (e.g. have TLC enumerate behaviours that the workers then replay)."""

    def fingerprint(self, case: Dict[str, Any], obs: Dict[str, Any]) -> str:
        o = {k: v for k, v in obs.items() if k != "id"}
        return hashlib.sha1(json.dumps(o, sort_keys=True).encode()).hexdigest()


def load_prop(pid: str) -> Prop:
    mod = importlib.import_module(f"vf.props.{pid.lower()}")
    return mod.PROP


_WORKER_HISTORY: List[List[Any]] = []     # the cases this worker process handled before, in order (they share the process, the scratch path and
                                          # every class-level or module-level cache of the library with the current case)


def _work(arg: Tuple[str, int, int, str]) -> Tuple[Dict[str, Any], Dict[str, Any]]:
    pid, seed, k, tier = arg
    from . import hta
    hta.setup()
    prop = load_prop(pid)
    rng = random.Random(f"{seed}/{pid}/{k}")
    before = [list(h) for h in _WORKER_HISTORY]
    _WORKER_HISTORY.append([pid, seed, k, tier])
    for _ in range(40):
        case = prop.gen_case(rng, k, tier)
        case["id"] = f"{pid}-{seed}-{k}"
        obs = _observe(prop, case)
        if not obs.get("skip"):      # the generated input fell outside the property's quantifier: draw again
            case["worker_history"] = before
            return case, obs
    raise RuntimeError(f"{pid}: 40 consecutive generated cases were outside the input domain")


def _observe(prop: Prop, case: Dict[str, Any]) -> Dict[str, Any]:
    try:
        obs = prop.observe(case)
    except Exception as ex:  # harness bug, not an HTA failure: HTA calls are wrapped inside observe()
        raise RuntimeError(f"harness failure in {case['id']}: {traceback.format_exc()}") from ex
    obs["id"] = case["id"]
    return obs


def _work_replay(arg: Tuple[str, Dict[str, Any]]) -> Dict[str, Any]:
    pid, case = arg
    from . import hta
    hta.setup()
    for h in case.get("worker_history", []):       # same process history as in the run that recorded the case
        try:
            _work(tuple(h))
        except Exception:
            pass
    if case.get("kind") == "isolation":
        from . import isolation
        return isolation.observe_iso(pid, case)
    return _observe(load_prop(pid), case)


class Ctx:
    def __init__(self, prop: Prop, tier: str, seed: int):
        self.prop, self.tier, self.seed = prop, tier, seed
        self.t0 = time.time()
        self.states = 0
        self.transitions = 0
        self.mc_runs: List[Dict[str, Any]] = []
        self.validated = 0
        self.replayed = 0
        self.samples: List[Any] = []
        self.nontrivial: set = set()
        self.evaluations = 0
        self.violations: List[Tuple[str, str, Dict[str, Any]]] = []   # (case id, what, replay payload)
        self.known_hits: Dict[str, int] = {}
        self.notes: List[str] = []
        self.extra_cov: Dict[str, Any] = {}
        self.known = json.load(open(KNOWN)) if os.path.exists(KNOWN) else {"findings": []}
        self.beyond: Dict[str, int] = {}
        self.beyond_first: Dict[str, str] = {}
        self.partial = False      # development run (--no-mc / --cases / --replay): evidence goes to out/, not evidence/

    # ---- known findings
    def classify(self, fails: List[str]) -> Tuple[List[str], List[str]]:
        """Split TLC's verdict into failing clauses and shape tags."""
        clauses = [f for f in fails if not f.startswith("shape:")]
        tags = [f[6:] for f in fails if f.startswith("shape:")]
        return clauses, tags

    def known_for(self, clause: str, tags: List[str]) -> Optional[Dict[str, Any]]:
        for f in self.known.get("findings", []):
            if f.get("status") != "known" or f.get("property") != self.prop.id:
                continue
            if clause in f.get("clauses", []) and f.get("shape") in tags:
                return f
        return None

    def judge(self, case: Dict[str, Any], obs: Dict[str, Any], fails: List[str]) -> None:
        clauses, tags = self.classify(fails)
        # clauses about behaviour outside the listed property (the specification covers more than the list): counted and reported as
        # a note, never as a violation of this property
        for c in [c for c in clauses if c.startswith("beyond_")]:
            self.beyond[c] = self.beyond.get(c, 0) + 1
            self.beyond_first.setdefault(c, case["id"])
        clauses = [c for c in clauses if not c.startswith("beyond_")]
        if not clauses:
            return
        if "in_domain" in clauses and "input_faithful" in clauses:
            # the loaded rows no longer say what the input file said: the input was in the domain, the loader output is wrong
            clauses = [c for c in clauses if c != "in_domain"]
        if "in_domain" in clauses:
            raise tlc.TLCError(f"case {case['id']} is outside the property's input domain (generator bug): {fails}")
        unknown = [c for c in clauses if self.known_for(c, tags) is None]
        if not unknown:
            for c in clauses:
                f = self.known_for(c, tags)
                self.known_hits[f["id"]] = self.known_hits.get(f["id"], 0) + 1
            return
        self.violations.append((case["id"], ",".join(unknown), {"case": case, "obs": obs, "failing_clauses": clauses, "shape_tags": tags}))

    def fail(self, cid: str, what: str, payload: Dict[str, Any]) -> None:
        self.violations.append((cid, what, payload))

    # ---- M
    def run_mc(self) -> None:
        for spec in self.prop.mc:
            cfg = spec.get(self.tier) or spec.get("quick")
            if not cfg:
                continue
            res = tlc.run_mc(spec["module"], cfg, workers=spec.get("workers", 16), timeout=spec.get("timeout", 7200),
                             env=spec.get("env"))
            self.mc_runs.append({k: res.get(k) for k in ("module", "cfg", "generated", "distinct", "depth", "wall_s", "violated", "actions")})
            self.states += res.get("distinct", 0)
            self.transitions += res.get("generated", 0)
            if res["violated"]:
                # the model of the design violates its declarative meaning: report as a machinery-level failure with the
                # counterexample; violations of the property by the *code* are reported only from runs of the code
                raise tlc.TLCError(f"model {spec['module']}/{cfg}: invariant {res['violated']} violated\n{res.get('counterexample', '')}")
            for a in spec.get("actions", []):
                if res["actions"].get(a, 0) == 0:
                    raise tlc.TLCError(f"model {spec['module']}/{cfg}: action {a} was never taken (vacuous run)")

    # ---- V
    def run_cases(self) -> None:
        n = self.prop.n_cases.get(self.tier, 0)
        if n <= 0 or not self.prop.trace_module:
            return
        args = [(self.prop.id, self.seed, k, self.tier) for k in range(n)]
        pairs: List[Tuple[Dict[str, Any], Dict[str, Any]]] = []
        with ProcessPoolExecutor(max_workers=self.prop.par) as ex:
            for pair in ex.map(_work, args, chunksize=max(1, n // (self.prop.par * 8))):
                pairs.append(pair)
        self.validate_pairs(pairs)

    def validate_pairs(self, pairs: List[Tuple[Dict[str, Any], Dict[str, Any]]], module: Optional[str] = None) -> None:
        obs = [o for _, o in pairs]
        verdicts = tlc.validate(module or self.prop.trace_module, obs, par=8)
        self.validated += len(obs)
        self.evaluations += len(obs)
        for case, o in pairs:
            if case.get("kind") == "isolation":
                if len({(s["obj"], s["op"]) for s in o.get("hist", [])}) >= 3:
                    self.nontrivial.add("iso:" + json.dumps(case["hist"]))
            elif self.prop.nontrivial(case, o):
                self.nontrivial.add(self.prop.fingerprint(case, o))
            self.judge(case, o, verdicts[o["id"]])
        for case, o in pairs[:2]:
            if len(self.samples) < 3:
                self.samples.append(_trim(o))

    # ---- reporting
    def finish(self) -> int:
        os.makedirs(EVID, exist_ok=True)
        rc = 0
        lines = []
        for f in self.known.get("findings", []):
            if f.get("property") == self.prop.id and f.get("status") == "known":
                lines.append(f"KNOWN-FINDING: property={self.prop.id} {f['id']}: {f['description']} (seen {self.known_hits.get(f['id'], 0)} times in this run)")
        if self.violations:
            rc = 1
            d = os.path.join(OUT, "replay", self.prop.id)
            os.makedirs(d, exist_ok=True)
            for cid, what, payload in self.violations[:20]:
                p = os.path.join(d, f"{cid}.json")
                payload = dict(payload)
                payload["property"] = self.prop.id
                payload["what"] = what
                with open(p, "w") as fh:
                    json.dump(payload, fh, indent=1, default=str)
                lines.append(f"VIOLATION property={self.prop.id} replay={p}   [{what}]")
        for c, n in sorted(self.beyond.items()):
            lines.append(f"NOTE beyond-property clause {c} (specified behaviour outside {self.prop.id}'s statement, see DESIGN.md section 6 'observations') "
                         f"did not hold on {n} records, first {self.beyond_first[c]}; not a violation of {self.prop.id}")
            self.notes.append(f"beyond-property clause {c} did not hold on {n} records (observation, not a violation of this property)")
        ev = {
            "property_id": self.prop.id, "tier": self.tier, "seed": self.seed, "level": "model_checking",
            "coverage": {
                "states": self.states, "transitions": self.transitions,
                "traces_validated_against_impl": self.validated + self.replayed,
                "samples": self.samples or ["(no cases in this run)"],
                "evaluations": self.evaluations + self.replayed,
                "distinct_nontrivial": len(self.nontrivial),
                "rule": self.prop.rule,
                "model_checking_runs": self.mc_runs,
                "records_validated_by_tlc": self.validated,
                "spec_behaviours_replayed_into_code": self.replayed,
                "known_finding_hits": self.known_hits,
                "exhaustive": False,
                **self.extra_cov,
            },
            "assumptions": self.prop.assumptions + self.notes,
            "wall_s": round(time.time() - self.t0, 1),
            "violations": len(self.violations),
        }
        evdir = os.path.join(OUT, "evidence-dev") if self.partial else EVID
        os.makedirs(evdir, exist_ok=True)
        with open(os.path.join(evdir, f"{self.prop.id}.json"), "w") as fh:
            json.dump(ev, fh, indent=1, default=str)
        for l in lines:
            print(l)
        print(f"{self.prop.id} {self.tier}: states={self.states} transitions={self.transitions} validated={self.validated} "
              f"replayed={self.replayed} nontrivial={len(self.nontrivial)} violations={len(self.violations)} wall={ev['wall_s']}s")
        return rc


def _trim(o: Any, depth: int = 0) -> Any:
    if isinstance(o, dict):
        return {k: _trim(v, depth + 1) for k, v in list(o.items())[:24]}
    if isinstance(o, list):
        return [_trim(v, depth + 1) for v in o[:12]] + (["…"] if len(o) > 12 else [])
    return o


def main(argv: Optional[List[str]] = None) -> int:
    import argparse
    ap = argparse.ArgumentParser(prog="check")
    ap.add_argument("prop")
    ap.add_argument("--tier", default=os.environ.get("VERIF_TIER", "quick"), choices=["quick", "thorough"])
    ap.add_argument("--replay")
    ap.add_argument("--no-mc", action="store_true")
    ap.add_argument("--cases", type=int)
    a = ap.parse_args(argv)
    seed = int(os.environ.get("VERIF_SEED", "0") or 0)
    scratch = tempfile.mkdtemp(prefix="vf-")
    os.environ["VF_SCRATCH"] = scratch
    os.environ.setdefault("PYTHONHASHSEED", "0")
    try:
        prop = load_prop(a.prop)
        if a.cases is not None:
            prop.n_cases = dict(prop.n_cases)
            prop.n_cases[a.tier] = a.cases
        ctx = Ctx(prop, a.tier, seed)
        ctx.partial = bool(a.no_mc or a.cases is not None or a.replay)
        if a.replay:
            payload = json.load(open(a.replay))
            case = payload["case"]
            with ProcessPoolExecutor(max_workers=1) as ex:
                obs = list(ex.map(_work_replay, [(prop.id, case)]))[0]
            module = payload.get("trace_module") or case.get("trace_module") or prop.trace_module
            ctx.validate_pairs([(case, obs)], module)
            print(json.dumps({"id": case["id"], "violations": [(c, w) for c, w, _ in ctx.violations]}, indent=1))
            return ctx.finish()
        if not a.no_mc:
            ctx.run_mc()
        prop.prepare(ctx)
        ctx.run_cases()
        prop.extra(ctx)
        from . import isolation
        isolation.run(ctx)
        return ctx.finish()
    except tlc.TLCError as ex:
        print(f"MACHINERY-FAILURE {a.prop}: {ex}", file=sys.stderr)
        return 2
    except Exception:
        print(f"MACHINERY-FAILURE {a.prop}: {traceback.format_exc()}", file=sys.stderr)
        return 2
    finally:
        shutil.rmtree(scratch, ignore_errors=True)
        shutil.rmtree("/tmp/" + scratch.lstrip("/"), ignore_errors=True)     # restore_cpgraph extracts archives to /tmp/<archive path>
