"""Helpers that run inside worker processes: import the repository under test from /repo's working tree,
silence it, and project file entries / frames to the abstract records the TLA+ modules talk about."""
from __future__ import annotations

import logging
import math
import os
import shutil
import sys
import tempfile
import traceback
from fractions import Fraction
from typing import Any, Dict, List, Optional

REPO = os.environ.get("VF_REPO", "/repo")
GUARD = "HTA_VERIF"


def setup() -> None:
    if REPO not in sys.path:
        sys.path.insert(0, REPO)
    os.environ[GUARD] = "1"
    logging.disable(logging.CRITICAL)
    import warnings
    warnings.filterwarnings("ignore")


def scratch_root() -> str:
    d = os.environ.get("VF_SCRATCH") or os.path.join(tempfile.gettempdir(), f"vf-{os.getppid()}")
    os.makedirs(d, exist_ok=True)
    return d


class CaseDir:
    """One directory per case, removed on exit.  A worker process uses the SAME path (and the generator the same file names) for all the
    cases it handles, as a user does who profiles again into the same folder within one session: anything the library remembers per path or
    per class across TraceAnalysis objects then meets different file contents."""
    _depth = 0

    def __init__(self, tag: str = "case"):
        self.tag = tag

    def __enter__(self) -> str:
        CaseDir._depth += 1
        self.path = os.path.join(scratch_root(), f"{self.tag}-w{os.getpid()}-{CaseDir._depth}")
        shutil.rmtree(self.path, ignore_errors=True)
        os.makedirs(self.path)
        return self.path

    def __exit__(self, *a) -> None:
        CaseDir._depth -= 1
        shutil.rmtree(self.path, ignore_errors=True)


def is_complete(e: Dict[str, Any]) -> bool:
    return "dur" in e and e.get("cat") is not None and e.get("cat") != "Trace" and e.get("dur") is not None


def _int_stream(v: Any) -> int:
    try:
        return int(v)
    except (ValueError, TypeError):
        return -1


def abstract_events(events: List[Dict[str, Any]], base: int, unit: int = 1) -> List[Dict[str, Any]]:
    """File entries -> abstract events (complete entries only).  Times become integers relative to `base`
    (microseconds) in units of 1/unit microsecond."""
    out = []
    for i, e in enumerate(events):
        if not is_complete(e):
            continue
        a = e.get("args") or {}
        ts = Fraction(e["ts"]) - base
        dur = Fraction(e["dur"])
        tsu, du = ts * unit, dur * unit
        assert tsu.denominator == 1 and du.denominator == 1, (e, unit)
        out.append({
            "id": i, "ts": int(tsu), "dur": int(du),
            "pid": e["pid"] if isinstance(e["pid"], int) else -99, "tid": e["tid"] if isinstance(e["tid"], int) else -99,
            "stream": _int_stream(a.get("stream", -1)), "corr": int(a.get("correlation", -1)),
            "name": e["name"], "cat": e["cat"],
        })
    return out


def exc_str(ex: BaseException) -> str:
    tb = traceback.extract_tb(ex.__traceback__)
    where = ""
    for fr in reversed(tb):
        if "/hta/" in fr.filename:
            where = f" @ {os.path.relpath(fr.filename, REPO)}:{fr.lineno}"
            break
    s = f"{type(ex).__name__}: {ex}"[:300] + where
    return s.replace('"', "'").replace("\\", "/").replace("\n", " ")


def ival(x: Any) -> int:
    """Exact integer value of a numeric cell (raises if it is not integral / is NaN)."""
    f = float(x)
    if math.isnan(f) or math.isinf(f):
        raise ValueError(f"not a finite number: {x}")
    i = int(round(f))
    if abs(f - i) > 1e-9:
        raise ValueError(f"not integral: {x}")
    return i


def oval(x: Any) -> int:
    """An OUTPUT value of the code under test as an integer.  TLC integers are 32 bit and its JSON reader wraps larger values
    (4294967295 would read as -1): anything beyond +-2^30 is pinned to that sentinel, which TLC can tell from the small value it would
    otherwise wrap to."""
    return max(-(2 ** 30), min(2 ** 30, ival(x)))


def scaled(x: Any, k: int) -> int:
    """round(x * k) as int; NaN/inf -> sentinel -2^30 so that TLC sees a wrong value rather than a crash."""
    f = float(x)
    if math.isnan(f) or math.isinf(f):
        return -7777          # small enough that TLC's 32-bit arithmetic on it cannot overflow
    return max(-10 ** 8, min(10 ** 8, int(round(f * k))))      # TLC integers are 32 bit; clauses multiply these by small cardinalities
