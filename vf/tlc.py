"""Thin wrappers around TLC: model checking runs, batch trace validation, case enumeration."""
from __future__ import annotations

import json
import os
import re
import shutil
import subprocess
import tempfile
import time
from concurrent.futures import ThreadPoolExecutor
from typing import Any, Dict, List, Optional, Tuple

VERIF = os.path.dirname(os.path.dirname(os.path.abspath(__file__)))
SPEC = os.path.join(VERIF, "spec")
JAR = "/opt/veriftools/tla/tla2tools.jar:/opt/veriftools/tla/CommunityModules-deps.jar"


class TLCError(RuntimeError):
    """TLC did not run to a verdict (parse error, evaluation error, timeout): machinery failure."""


def _java(args: List[str], env: Dict[str, str], timeout: int, cwd: str = SPEC, xmx: str = "8g") -> Tuple[int, str]:
    # TLC unpacks its standard modules into java.io.tmpdir (one directory per run, never removed): keep that under the run's scratch root
    cmd = ["java", "-XX:+UseParallelGC", f"-Xmx{xmx}", "-Xss256m", f"-Djava.io.tmpdir={_scratch()}", "-cp", JAR, "tlc2.TLC"] + args
    e = dict(os.environ)
    e.update(env)
    try:
        p = subprocess.run(cmd, cwd=cwd, env=e, stdout=subprocess.PIPE, stderr=subprocess.STDOUT, text=True, timeout=timeout)
    except subprocess.TimeoutExpired as ex:
        raise TLCError(f"TLC timed out after {timeout}s: {' '.join(args)}") from ex
    return p.returncode, p.stdout


_STATS = re.compile(r"(\d+) states generated, (\d+) distinct states found, (\d+) states left on queue")
_DEPTH = re.compile(r"The depth of the complete state graph search is (\d+)")
_VIOL = re.compile(r"Error: (?:Invariant|Action property|Temporal properties?) ?(\S*) (?:is|was|were) violated")
_COV = re.compile(r"^<(\w+) line (\d+), col \d+ to line \d+, col \d+ of module (\w+)>: (\d+):(\d+)", re.M)


def run_mc(module: str, cfg: str, workers: int = 16, timeout: int = 3600, coverage: bool = True,
           extra: Optional[List[str]] = None, env: Optional[Dict[str, str]] = None) -> Dict[str, Any]:
    """Exhaustive TLC run of spec/<module>.tla with spec/<cfg>.  Returns counts, per-action coverage and
    the name of the violated invariant, if any."""
    meta = tempfile.mkdtemp(prefix="tlc-", dir=_scratch())
    t0 = time.time()
    args = ["-workers", str(workers), "-metadir", meta, "-noGenerateSpecTE", "-config", cfg]
    if coverage:
        args += ["-coverage", "1"]
    args += (extra or []) + [module + ".tla"]
    try:
        rc, out = _java(args, env or {}, timeout)
    finally:
        shutil.rmtree(meta, ignore_errors=True)
    res: Dict[str, Any] = {"module": module, "cfg": cfg, "rc": rc, "wall_s": round(time.time() - t0, 1)}
    m = None
    for m in _STATS.finditer(out):
        pass
    if m:
        res.update(generated=int(m.group(1)), distinct=int(m.group(2)), queue=int(m.group(3)))
    d = _DEPTH.search(out)
    if d:
        res["depth"] = int(d.group(1))
    acts: Dict[str, int] = {}
    for a in _COV.finditer(out):
        acts[a.group(1)] = max(acts.get(a.group(1), 0), int(a.group(4)), int(a.group(5)))   # distinct : taken
    res["actions"] = acts
    v = _VIOL.search(out)
    res["violated"] = v.group(1) if v else None
    res["ok"] = (rc == 0 and "No error has been found" in out)
    if not res["ok"] and not v:
        raise TLCError(f"TLC failed on {module}/{cfg} (rc={rc}):\n" + _tail(out))
    if v:
        i = out.find("Error:")
        res["counterexample"] = out[i:i + 6000]
    return res


def _tail(out: str, n: int = 60) -> str:
    lines = [l for l in out.splitlines() if "conda" not in l]
    first = next((k for k, l in enumerate(lines) if l.startswith("Error:")), None)
    if first is not None:
        return "\n".join(lines[first:first + n])
    return "\n".join(lines[-n:])


def _scratch() -> str:
    d = os.environ.get("VF_SCRATCH") or os.path.join(tempfile.gettempdir(), f"vf-{os.getpid()}")
    os.makedirs(d, exist_ok=True)
    return d


_VLINE = re.compile(r'<<\s*"@@V",\s*"([^"]*)",\s*(\{[^}]*\})\s*>>', re.S)


def _validate_chunk(module: str, path: str, timeout: int) -> Dict[str, List[str]]:
    meta = tempfile.mkdtemp(prefix="tlcv-", dir=_scratch())
    try:
        rc, out = _java(["-workers", "1", "-metadir", meta, "-noGenerateSpecTE", "-config", module + ".cfg", module + ".tla"],
                        {"OBS_FILE": path}, timeout, xmx="4g")
    finally:
        shutil.rmtree(meta, ignore_errors=True)
    verdicts: Dict[str, List[str]] = {}
    for m in _VLINE.finditer(out):
        verdicts[m.group(1)] = re.findall(r'"([^"]*)"', m.group(2))
    if rc != 0 or "No error has been found" not in out:
        raise TLCError(f"TLC failed validating {path} with {module} (rc={rc}); {len(verdicts)} verdicts before failure\n" + _tail(out, 40))
    return verdicts


def validate(module: str, records: List[Dict[str, Any]], par: int = 8, timeout: int = 3600) -> Dict[str, List[str]]:
    """Have TLC evaluate Trace_<X> on every record.  Returns id -> list of failing clause names (empty = accepted).
    Every record must receive a verdict, otherwise TLCError."""
    if not records:
        return {}
    d = tempfile.mkdtemp(prefix="obs-", dir=_scratch())
    n = max(1, min(par, (len(records) + 24) // 25))
    chunks = [records[i::n] for i in range(n)]
    paths = []
    for k, ch in enumerate(chunks):
        p = os.path.join(d, f"obs{k}.ndjson")
        with open(p, "w") as f:
            for r in ch:
                f.write(json.dumps(r, separators=(",", ":")) + "\n")
        paths.append(p)
    verdicts: Dict[str, List[str]] = {}
    try:
        with ThreadPoolExecutor(max_workers=n) as ex:
            for v in ex.map(lambda p: _validate_chunk(module, p, timeout), paths):
                verdicts.update(v)
    finally:
        shutil.rmtree(d, ignore_errors=True)
    missing = [r["id"] for r in records if r["id"] not in verdicts]
    if missing:
        raise TLCError(f"{len(missing)} records got no verdict from {module}, e.g. {missing[:3]}")
    return verdicts


_ELINE = re.compile(r'^"@@E (.*)"\s*$')


def enumerate_cases(module: str, cfg: str, timeout: int = 1800, env: Optional[Dict[str, str]] = None) -> Tuple[List[Any], Dict[str, Any]]:
    """Run an enumeration spec with one worker; it prints one `@@E <json>` string per case (ToJson)."""
    meta = tempfile.mkdtemp(prefix="tlce-", dir=_scratch())
    try:
        rc, out = _java(["-workers", "1", "-metadir", meta, "-noGenerateSpecTE", "-config", cfg, module + ".tla"], env or {}, timeout)
    finally:
        shutil.rmtree(meta, ignore_errors=True)
    if rc != 0 or "No error has been found" not in out:
        raise TLCError(f"TLC failed enumerating {module}/{cfg} (rc={rc})\n" + _tail(out, 40))
    cases = []
    for line in out.splitlines():
        m = _ELINE.match(line.strip())
        if m:
            s = m.group(1).encode().decode("unicode_escape") if "\\" in m.group(1) else m.group(1)
            cases.append(json.loads(s))
    st = _STATS.search(out)
    stats = {"generated": int(st.group(1)), "distinct": int(st.group(2))} if st else {}
    return cases, stats


def simulate_cases(module: str, cfg: str, num: int, depth: int, seed: int, timeout: int = 1800,
                   env: Optional[Dict[str, str]] = None) -> List[Any]:
    """Random behaviours of a spec (`tlc -simulate`); the spec prints one `@@E <json>` history per behaviour."""
    meta = tempfile.mkdtemp(prefix="tlcs-", dir=_scratch())
    try:
        rc, out = _java(["-workers", "1", "-metadir", meta, "-noGenerateSpecTE", "-simulate", f"num={num}", "-depth", str(depth),
                         "-seed", str(seed), "-config", cfg, module + ".tla"], env or {}, timeout)
    finally:
        shutil.rmtree(meta, ignore_errors=True)
    if rc != 0 and "Error:" in out:
        raise TLCError(f"TLC failed simulating {module}/{cfg} (rc={rc})\n" + _tail(out, 40))
    cases = []
    for line in out.splitlines():
        m = _ELINE.match(line.strip())
        if m:
            cases.append(json.loads(m.group(1).encode().decode("unicode_escape")))
    return cases
