"""Public calls on one TraceAnalysis object (the actions of spec/Session.tla), used
 (a) by the session conformance check (C01.extra): which derived columns a call leaves on the shared frames, loader columns intact;
 (b) as call *prefixes* in the analyzer checks: a property must hold whatever was called on the object before."""
from __future__ import annotations

import contextlib
import hashlib
import io
import json
import os
from typing import Any, Callable, Dict, List

BASE_COLS = ["index", "ts", "dur", "end", "pid", "tid", "stream", "correlation", "index_correlation", "iteration", "name", "cat"]
STACK_COLS = {"parent", "depth", "height", "first_kernel_start", "last_kernel_end", "num_kernels", "kernel_dur_sum", "kernel_span"}


def _r0(ta) -> int:
    return sorted(ta.t.traces)[0]


def _ops() -> Dict[str, Callable[[Any, str], Any]]:
    def kernel_sequences(ta, d):
        st = ta.t.symbol_table.get_sym_table()
        df = ta.t.get_trace(_r0(ta))
        names = sorted({st[int(i)] for i, c in zip(df["name"], df["cat"]) if st[int(c)] == "cpu_op"})
        out = os.path.join(d, "seq_out")
        os.makedirs(out, exist_ok=True)
        return ta.get_frequent_cuda_kernel_sequences(operator_name=names[0] if names else "aten::add", output_dir=out, min_pattern_len=1,
                                                     rank=_r0(ta), top_k=2, visualize=False)

    def critical_path(ta, d):
        cp, ok = ta.critical_path_analysis(rank=_r0(ta), annotation="", instance_id=None)
        with contextlib.redirect_stdout(io.StringIO()):
            cp.get_critical_path_breakdown()
            cp.summary()
        return cp

    def call_graph(ta, d):
        from hta.common.trace_call_graph import CallGraph
        return CallGraph(ta.t, ranks=[_r0(ta)])

    def labeled_trace(ta, d):
        from hta.trace_diff import TraceDiff
        return TraceDiff.compare_traces(ta.t, ta.t)

    return {
        "temporal_breakdown": lambda ta, d: ta.get_temporal_breakdown(visualize=False),
        "comm_comp_overlap": lambda ta, d: ta.get_comm_comp_overlap(visualize=False),
        "kernel_breakdown": lambda ta, d: ta.get_gpu_kernel_breakdown(visualize=False, num_kernels=2),
        "idle_breakdown": lambda ta, d: ta.get_idle_time_breakdown(ranks=[_r0(ta)], visualize=False),
        "queue_length": lambda ta, d: ta.get_queue_length_time_series(ranks=sorted(ta.t.traces)),
        "memory_bw": lambda ta, d: ta.get_memory_bw_time_series(ranks=sorted(ta.t.traces)),
        "launch_stats_mem": lambda ta, d: ta.get_cuda_kernel_launch_stats(ranks=sorted(ta.t.traces), include_memory_events=True, visualize=False),
        "launch_stats_nomem": lambda ta, d: ta.get_cuda_kernel_launch_stats(ranks=sorted(ta.t.traces), include_memory_events=False, visualize=False),
        "with_counters": lambda ta, d: ta.generate_trace_with_counters(ranks=[_r0(ta)]),
        "decode_names": lambda ta, d: ta.t.decode_symbol_ids(use_shorten_name=False),
        "call_graph": call_graph,
        "kernel_sequences": kernel_sequences,
        "user_annotations": lambda ta, d: ta.get_gpu_kernels_with_user_annotations(rank=_r0(ta)),
        "critical_path": critical_path,
        "labeled_trace": labeled_trace,
    }


OPS = None


def apply(ta, ops: List[str], d: str) -> List[str]:
    """Run the calls, ignoring their results; returns the error (or '') of each."""
    global OPS
    if OPS is None:
        OPS = _ops()
    errs = []
    for op in ops:
        try:
            OPS[op](ta, d)
            errs.append("")
        except BaseException as ex:
            errs.append(f"{type(ex).__name__}: {str(ex)[:120]}")
    return errs


def derived_cols(ta) -> List[str]:
    df = ta.t.get_trace(_r0(ta))
    out = set()
    for c in df.columns:
        if c in BASE_COLS:
            continue
        if c in STACK_COLS:
            out.add("stack")
        elif c in ("s_name", "s_cat", "user_annotation"):
            out.add(c)
        elif c in LOADER_EXTRA:
            continue
        else:
            out.add(str(c))
    return sorted(out)


LOADER_EXTRA: set = set()


def note_loader_columns(ta) -> None:
    """Columns present right after loading (parser args etc.) are the loader's, whatever they are called."""
    LOADER_EXTRA.clear()
    LOADER_EXTRA.update(c for c in ta.t.get_trace(_r0(ta)).columns if c not in BASE_COLS)


def base_digest(ta) -> str:
    h = hashlib.sha1()
    st = ta.t.symbol_table.get_sym_table()
    for r in sorted(ta.t.traces):
        df = ta.t.get_trace(r)
        rows = []
        for t in df[BASE_COLS].itertuples(index=False):
            rows.append([int(t[0])] + [float(x) for x in t[1:10]] + [st[int(t[10])], st[int(t[11])]])
        rows.sort()
        h.update(json.dumps([int(r), rows]).encode())
    return h.hexdigest()[:20]


# ---------------------------------------------------------------------------------------------------------------------------------
# Digests of what a call returned (for the isolation check, spec/Sessions.tla): canonical, independent of symbol-id numbering
def canon(x: Any) -> Any:
    import pandas as pd
    if x is None:
        return None
    if isinstance(x, pd.DataFrame):
        d = x.reset_index(drop=isinstance(x.index, pd.RangeIndex))
        cols = [str(c) for c in d.columns]
        rows = [[None if (isinstance(v, float) and v != v) else (round(v, 6) if isinstance(v, float) else str(v)) for v in r]
                for r in d.itertuples(index=False)]
        return [cols, rows]
    if isinstance(x, pd.Series):
        return canon(x.to_frame())
    if isinstance(x, dict):
        return {str(k): canon(v) for k, v in sorted(x.items(), key=lambda kv: str(kv[0]))}
    if isinstance(x, (list, tuple)):
        return [canon(v) for v in x]
    if isinstance(x, float):
        return None if x != x else round(x, 6)
    if isinstance(x, (int, str, bool)):
        return x
    return str(type(x).__name__)


def result_digest(op: str, ta, res: Any, d: str) -> str:
    """What the call produced: its return value, or - for calls that work through side effects - the thing they made."""
    r0 = _r0(ta)
    st = ta.t.symbol_table.get_sym_table()
    df = ta.t.get_trace(r0)
    if op == "with_counters":
        import gzip
        src = ta.t.trace_files[r0]
        p = src.replace(".json", "_with_counters.json")
        raw = open(p, "rb").read()
        what: Any = json.loads(gzip.decompress(raw) if raw[:2] == b"\x1f\x8b" else raw)["traceEvents"]
    elif op == "decode_names":
        what = [[int(i), str(a), str(b)] for i, a, b in zip(df["index"], df["s_name"], df["s_cat"])]
    elif op == "call_graph":
        cols = [c for c in ["index", "parent", "depth", "height", "num_kernels", "kernel_dur_sum", "first_kernel_start", "last_kernel_end", "kernel_span"] if c in df.columns]
        what = canon(df[cols].sort_values("index"))
    elif op == "critical_path":
        cp = res
        with contextlib.redirect_stdout(io.StringIO()):
            bd = cp.get_critical_path_breakdown()
        what = {"nodes": [[int(n.idx), int(n.ev_idx), float(n.ts), bool(n.is_start)] for n in cp.node_list],
                "edges": sorted([int(u), int(v), float(dd["weight"]), str(dd["object"].type.value)] for u, v, dd in cp.edges(data=True)),
                "path": [int(n) for n in cp.critical_path_nodes], "events": sorted(int(x) for x in cp.critical_path_events_set),
                "pedges": sorted([int(e.begin), int(e.end)] for e in cp.critical_path_edges_set),
                "bd": None if bd is None else canon(bd[["event_idx", "duration", "type", "bound_by"]])}
    else:
        what = canon(res)
    return hashlib.sha1(json.dumps(what, sort_keys=True, default=str).encode()).hexdigest()[:20]


SIDE_EFFECT_OPS = {"with_counters", "decode_names", "call_graph"}      # they work through the object / the folder, not a returned value


def run_ops(ta, ops: List[str], d: str, retain: Any = None) -> List[Dict[str, str]]:
    """`retain`: a list that receives (op, returned value) so that the value can be digested again later."""
    global OPS
    if OPS is None:
        OPS = _ops()
    out = []
    os.makedirs(d, exist_ok=True)
    for op in ops:
        rec = {"op": op, "dig": "", "err": ""}
        try:
            res = OPS[op](ta, d)
            rec["dig"] = result_digest(op, ta, res, d)
            if retain is not None:
                retain.append((op, res))
        except BaseException as ex:
            rec["err"] = f"{type(ex).__name__}: {str(ex)[:120]}".replace('"', "'").replace("\\", "/").replace("\n", " ")
        if retain is not None and rec["err"]:
            retain.append((op, None))
        out.append(rec)
    return out
