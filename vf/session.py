"""Public calls on one TraceAnalysis object (the actions of spec/Session.tla), used
 (a) by the session conformance check (C01.extra): which derived columns a call leaves on the shared frames, loader columns intact;
 (b) as call *prefixes* in the analyzer checks: a property must hold whatever was called on the object before."""
from __future__ import annotations

import contextlib
import hashlib
import io
import json
import os
from typing import Any, Callable, Dict, List

BASE_COLS = ["index", "ts", "dur", "end", "pid", "tid", "stream", "correlation", "index_correlation", "iteration", "name", "cat"]
STACK_COLS = {"parent", "depth", "height", "first_kernel_start", "last_kernel_end", "num_kernels", "kernel_dur_sum", "kernel_span"}


def _r0(ta) -> int:
    return sorted(ta.t.traces)[0]


def _ops() -> Dict[str, Callable[[Any, str], Any]]:
    def kernel_sequences(ta, d):
        st = ta.t.symbol_table.get_sym_table()
        df = ta.t.get_trace(_r0(ta))
        names = sorted({st[int(i)] for i, c in zip(df["name"], df["cat"]) if st[int(c)] == "cpu_op"})
        out = os.path.join(d, "seq_out")
        os.makedirs(out, exist_ok=True)
        return ta.get_frequent_cuda_kernel_sequences(operator_name=names[0] if names else "aten::add", output_dir=out, min_pattern_len=1,
                                                     rank=_r0(ta), top_k=2, visualize=False)

    def critical_path(ta, d):
        cp, ok = ta.critical_path_analysis(rank=_r0(ta), annotation="", instance_id=None)
        with contextlib.redirect_stdout(io.StringIO()):
            cp.get_critical_path_breakdown()
            cp.summary()
        return ok

    def call_graph(ta, d):
        from hta.common.trace_call_graph import CallGraph
        return CallGraph(ta.t, ranks=[_r0(ta)])

    def labeled_trace(ta, d):
        from hta.trace_diff import TraceDiff
        return TraceDiff.compare_traces(ta.t, ta.t)

    return {
        "temporal_breakdown": lambda ta, d: ta.get_temporal_breakdown(visualize=False),
        "comm_comp_overlap": lambda ta, d: ta.get_comm_comp_overlap(visualize=False),
        "kernel_breakdown": lambda ta, d: ta.get_gpu_kernel_breakdown(visualize=False, num_kernels=2),
        "idle_breakdown": lambda ta, d: ta.get_idle_time_breakdown(ranks=[_r0(ta)], visualize=False),
        "queue_length": lambda ta, d: ta.get_queue_length_time_series(ranks=sorted(ta.t.traces)),
        "memory_bw": lambda ta, d: ta.get_memory_bw_time_series(ranks=sorted(ta.t.traces)),
        "launch_stats_mem": lambda ta, d: ta.get_cuda_kernel_launch_stats(ranks=sorted(ta.t.traces), include_memory_events=True, visualize=False),
        "launch_stats_nomem": lambda ta, d: ta.get_cuda_kernel_launch_stats(ranks=sorted(ta.t.traces), include_memory_events=False, visualize=False),
        "with_counters": lambda ta, d: ta.generate_trace_with_counters(ranks=[_r0(ta)]),
        "decode_names": lambda ta, d: ta.t.decode_symbol_ids(use_shorten_name=False),
        "call_graph": call_graph,
        "kernel_sequences": kernel_sequences,
        "user_annotations": lambda ta, d: ta.get_gpu_kernels_with_user_annotations(rank=_r0(ta)),
        "critical_path": critical_path,
        "labeled_trace": labeled_trace,
    }


OPS = None


def apply(ta, ops: List[str], d: str) -> List[str]:
    """Run the calls, ignoring their results; returns the error (or '') of each."""
    global OPS
    if OPS is None:
        OPS = _ops()
    errs = []
    for op in ops:
        try:
            OPS[op](ta, d)
            errs.append("")
        except BaseException as ex:
            errs.append(f"{type(ex).__name__}: {str(ex)[:120]}")
    return errs


def derived_cols(ta) -> List[str]:
    df = ta.t.get_trace(_r0(ta))
    out = set()
    for c in df.columns:
        if c in BASE_COLS:
            continue
        if c in STACK_COLS:
            out.add("stack")
        elif c in ("s_name", "s_cat", "user_annotation"):
            out.add(c)
        elif c in LOADER_EXTRA:
            continue
        else:
            out.add(str(c))
    return sorted(out)


LOADER_EXTRA: set = set()


def note_loader_columns(ta) -> None:
    """Columns present right after loading (parser args etc.) are the loader's, whatever they are called."""
    LOADER_EXTRA.clear()
    LOADER_EXTRA.update(c for c in ta.t.get_trace(_r0(ta)).columns if c not in BASE_COLS)


def base_digest(ta) -> str:
    h = hashlib.sha1()
    st = ta.t.symbol_table.get_sym_table()
    for r in sorted(ta.t.traces):
        df = ta.t.get_trace(r)
        rows = []
        for t in df[BASE_COLS].itertuples(index=False):
            rows.append([int(t[0])] + [float(x) for x in t[1:10]] + [st[int(t[10])], st[int(t[11])]])
        rows.sort()
        h.update(json.dumps([int(r), rows]).encode())
    return h.hexdigest()[:20]
