"""Seeded generator of synthetic Kineto traces.

A trace is produced by *simulating* a small program: host threads are coroutines with a clock,
operators open and close around their children (so spans are properly nested by construction),
launch calls put device activities on FIFO streams (start no earlier than the launch, never
overlapping inside a stream), synchronising calls stretch until the device work they wait for has
finished.  Every advance of a clock is drawn from a small set that contains 0, which is what creates
the tie patterns the properties are about: shared start/end instants, identical spans, touching
siblings, zero-duration events, kernels starting at the instant of their launch.

The generator only *writes* files; whether a generated trace lies in a property's input domain is
re-evaluated by TLC on the recorded abstract input (DESIGN 4.1).
"""
from __future__ import annotations

import gzip
import json
import os
import random
from dataclasses import dataclass, field
from typing import Any, Dict, List, Optional, Tuple

# ----------------------------------------------------------------------------- vocabulary
HOST_OPS = ["aten::add", "aten::mm", "aten::linear", "aten::conv2d", "aten::relu", "aten::copy_"]
BWD_OPS = ["autograd::engine::evaluate_function: AddBackward0", "autograd::engine::evaluate_function: MmBackward0"]
K_COMP = ["ampere_sgemm_128x64_nn", "void at::native::vectorized_elementwise_kernel<4, at::native::AddFunctor<float> >(int, float)",
          "sm80_xmma_gemm_f32f32", "void cutlass::Kernel<cutlass_80_tensorop>(Params)",
          "void at::native::vectorized_elementwise_kernel<4, at::native::MulFunctor<float> >(int, float)"]
# not drawn by the simulator (the draw sequences of all properties stay as they are); substituted into some C04 cases
K_COMP_MEMSET_LIKE = "void fbgemm_gpu::fusedMemsetScatter_kernel<float>(float*, int)"
K_COMM = ["ncclKernel_AllReduce_RING_LL_Sum_float(ncclWorkElem)", "ncclDevKernel_AllGather_RING_LL(ncclDevComm*)"]
K_MEMCPY = ["Memcpy HtoD (Pageable -> Device)", "Memcpy DtoH (Device -> Pageable)", "Memcpy DtoD (Device -> Device)",
            "Memcpy HtoD (Pinned -> Device)"]      # two full names of one copy type
K_MEMSET = ["Memset (Device)"]
KERNEL_LAUNCHES = ["cudaLaunchKernel", "cudaLaunchKernelExC", "cuLaunchKernel"]
OTHER_RUNTIME = ["cudaMalloc", "cudaStreamIsCapturing", "cudaGetLastError"]
# launch-capable runtime calls that are NOT in HTA's list of launch names (the pairing is by correlation id, whatever the name)
UNLISTED_KERNEL_LAUNCH = "cudaLaunchCooperativeKernel"
UNLISTED_MEM_LAUNCH = "cudaMemcpy2DAsync"

KCLASS = {}
for _n in K_COMP:
    KCLASS[_n] = "COMPUTATION"
for _n in K_COMM:
    KCLASS[_n] = "COMMUNICATION"
for _n in K_MEMCPY + K_MEMSET:
    KCLASS[_n] = "MEMORY"

LAUNCH_NAMES = {"cudaLaunchKernel", "cudaLaunchKernelExC", "cuLaunchKernel", "cudaMemcpyAsync", "cudaMemsetAsync",
                "hipLaunchKernel", "hipExtModuleLaunchKernel", "hipMemsetAsync", "hipMemcpyAsync", "hipMemcpyWithStream",
                "runFunction - job_prep_and_submit_for_execution"}
MEM_LAUNCH_NAMES = {"cudaMemcpyAsync", "cudaMemsetAsync"}
SYNC_NAMES = {"Stream Sync", "Context Sync", "Event Sync", "Stream Wait Event"}


@dataclass
class GenCfg:
    """Knobs; every probability is in [0,1]."""
    n_ranks: int = 1
    n_steps: int = 0                 # profiler steps per rank (same numbers on all ranks)
    first_step_no: int = 3
    pre_ops: int = 1                 # top-level operators before the first step
    post_ops: int = 1                # ... after the last step
    ops_per_step: Tuple[int, int] = (1, 3)
    max_depth: int = 3
    max_children: int = 3
    adv: Tuple[int, ...] = (0, 0, 1, 1, 2, 3)   # clock advances
    streams: Tuple[int, ...] = (7,)
    p_launch: float = 0.5            # a leaf slot becomes a launch call
    p_mem: float = 0.25              # ... of which memcpy/memset
    p_comm: float = 0.25             # kernel is a communication kernel
    p_sync: float = 0.0              # a leaf slot becomes a stream/context sync call
    p_event_sync: float = 0.0        # event record / wait / sync
    p_other_rt: float = 0.1
    p_drop_kernel: float = 0.0       # kernel missing from the file
    p_drop_launch: float = 0.0       # launch call missing from the file
    kdur: Tuple[int, ...] = (0, 1, 2, 3, 5, 8)
    kgap: Tuple[int, ...] = (0, 0, 1, 2, 5, 30, 31)    # gap after previous kernel on the stream
    kdelay: Tuple[int, ...] = (0, 0, 1, 2, 4)           # kernel start - launch start, lower bound
    bwd_thread: bool = False
    bwd_annotation: bool = False
    n_extra_threads: int = 0
    shuffle: bool = True
    base: int = 1000                 # epoch offset of the rank's earliest timestamp (us)
    rank_skew: Tuple[int, ...] = (0, 3, 17)
    frac: int = 1                    # ticks per microsecond (1 = integer timestamps; 8 = eighths)
    extras: bool = True              # metadata / flow / instant / Trace-span entries
    fmt: str = "json.gz"
    zero_len_same_start_ok: bool = True
    unlinked_head: int = 0           # device activities before everything whose launch is outside the trace
    gpu_annotations: bool = False
    corr_base: int = 100             # first correlation id of rank 0
    corr_stride: int = 100           # distance between the id ranges of consecutive ranks (0: every rank uses the same ids)
    p_unlisted_launch: float = 0.0   # a launch goes through a runtime call that is not in HTA's launch-name list
    big_stream_marker: bool = False  # Context Sync records carry Kineto's unsigned 'no stream' marker 4294967295 instead of -1
    p_nocorr_head: float = 0.0       # a device activity at the head of the trace carries no correlation id at all
    p_nocorr_launch: float = 0.0     # a launch call whose activity is missing from the file carries no correlation id either
    loner: bool = False              # an extra host thread with ONE childless operator that outlasts everything else
    p_overhang: float = 0.0          # an operator ends 1-2 us BEFORE its last child (timer glitch: not properly nested any more)
    p_nested_annotation: float = 0.0 # a child slot of an operator becomes a user annotation that wraps further operators
    bwd_end_tie: bool = False        # the last autograd operator inside a backward annotation / profiler step ends exactly when that one ends
    rank_ids: Optional[Tuple[int, ...]] = None   # the job's rank numbers when they are not 0..n-1 (a sampled job: e.g. ranks 0, 2, 5)
    p_launch_at_step_end: float = 0.0  # a launch call of the main thread begins at the very instant a profiler step ends (window boundary)
    p_launch_after_op: float = 0.0   # a launch call (a sibling, not a child) begins at the very instant an operator ends
    p_mem_as_kernel: float = 0.0     # a cudaMemsetAsync / cudaMemcpyAsync call whose linked device activity is of category "kernel"
    p_graph_launch: float = 0.0      # a launch call starts SEVERAL kernels that all carry its correlation id (CUDA graph launch); outside the
                                     # "one host call, one device activity per id" domain, so only for properties without that restriction
    big_vocab: bool = False          # rank 0 uses > 130 distinct operator names and every later rank one name of its own: the later
                                     # ranks' own symbols get job-wide ids >= 128 although their files hold few symbols
    same_tid_process: bool = False   # the first extra host thread belongs to ANOTHER process and has the same tid as the main thread
    python_functions: bool = False   # interpreter frames (cat python_function, profiles taken with stacks) spanning some host operators
    tie_sync: bool = False           # the main thread ends with one kernel per stream, all ending at the same instant, and a device sync
    pad_entries: int = 0             # that many metadata entries right after the first file entry: event ids (file positions) get large
    per_rank: Optional[Dict[int, Dict[str, Any]]] = None   # knob overrides for individual ranks (differently instrumented ranks of one job)


@dataclass
class RankTrace:
    rank: int
    events: List[Dict[str, Any]]     # traceEvents entries in file order
    meta: Dict[str, Any]
    fmt: str
    ticks: int                       # ticks per microsecond used for ts/dur in `events`
    base: int                        # microseconds

    def to_json(self) -> Dict[str, Any]:
        d = dict(self.meta)
        d["traceEvents"] = self.events
        return d


class _Sim:
    def __init__(self, rng: random.Random, cfg: GenCfg, rank: int, t0: int):
        self.rng, self.cfg, self.rank = rng, cfg, rank
        self.pid = 4000 + rank
        self.ev: List[Dict[str, Any]] = []
        self.corr = cfg.corr_base + cfg.corr_stride * rank - 1      # next_corr() pre-increments: the first id is corr_base itself
        self.last_end: Dict[int, int] = {}      # per stream: end of last placed activity
        self.last_start: Dict[int, int] = {}
        self.launched: Dict[int, List[int]] = {}  # per stream: ends of activities launched so far
        self.t0 = t0
        self.ext = 0
        self.records: Dict[int, Tuple[int, int]] = {}  # cuda event id -> (record corr, stream)
        self.wait_until: Dict[int, int] = {}    # stream -> earliest start imposed by stream-wait

    # -- helpers
    def adv(self) -> int:
        return self.rng.choice(self.cfg.adv)

    def host(self, cat, name, tid, ts, dur, **args) -> Dict[str, Any]:
        self.ext += 1
        a = {"External id": self.ext}
        a.update(args)
        e = {"ph": "X", "cat": cat, "name": name, "pid": self.pid, "tid": tid, "ts": ts, "dur": dur, "args": a}
        self.ev.append(e)
        return e

    def dev(self, cat, name, stream, ts, dur, corr, **args) -> Dict[str, Any]:
        a = {"device": 0, "context": 1, "stream": stream, "correlation": corr}
        a.update(args)
        e = {"ph": "X", "cat": cat, "name": name, "pid": 0, "tid": stream, "ts": ts, "dur": dur, "args": a}
        self.ev.append(e)
        return e

    def next_corr(self) -> int:
        self.corr += 1
        return self.corr

    # -- leaf actions (run at clock `t` of thread `tid`; return new clock)
    def launch(self, tid: int, t: int) -> int:
        rng, cfg = self.rng, self.cfg
        corr = self.next_corr()
        stream = rng.choice(cfg.streams)
        is_mem = rng.random() < cfg.p_mem
        dur_call = self.adv()
        kdur = rng.choice(cfg.kdur)
        start_lb = max(t + rng.choice(cfg.kdelay), self.wait_until.get(stream, 0))
        if stream in self.last_end:
            start = max(start_lb, self.last_end[stream] + rng.choice(cfg.kgap))
            if not cfg.zero_len_same_start_ok and start <= self.last_start.get(stream, -1):
                start = self.last_start[stream] + 1     # strict FIFO: no two activities of a stream share a start instant
        else:
            start = start_lb
        self.last_start[stream] = start
        if is_mem:
            if rng.random() < 0.3:
                call, cat, kname = "cudaMemsetAsync", "gpu_memset", "Memset (Device)"
            else:
                call, cat, kname = "cudaMemcpyAsync", "gpu_memcpy", rng.choice(K_MEMCPY)
                if rng.random() < cfg.p_unlisted_launch:
                    call = UNLISTED_MEM_LAUNCH
            if rng.random() < cfg.p_mem_as_kernel:
                cat, kname = "kernel", rng.choice(K_COMP)
            bw = rng.choice([1, 2, 3, 4, 6, 8, 12, 16, 2 ** -9, 2 ** -10]) / 4.0   # dyadic, incl. very slow copies (about 0.0005 and 0.00024 GB/s)
            kargs = {"queued": 0} if cat == "kernel" else {"bytes": 512 * rng.randint(1, 8), "memory bandwidth (GB/s)": bw}
        else:
            call, cat = rng.choice(KERNEL_LAUNCHES), "kernel"
            if rng.random() < cfg.p_unlisted_launch:
                call = UNLISTED_KERNEL_LAUNCH
            kname = rng.choice(K_COMM) if rng.random() < cfg.p_comm else rng.choice(K_COMP)
            kargs = {"queued": 0}
        rt_cat = "cuda_driver" if call == "cuLaunchKernel" else "cuda_runtime"
        keep_launch = rng.random() >= cfg.p_drop_launch
        keep_kernel = rng.random() >= cfg.p_drop_kernel
        if keep_launch:
            self.host(rt_cat, call, tid, t, dur_call, cbid=211, correlation=corr)
            if cfg.p_nocorr_launch > 0 and not keep_kernel and rng.random() < cfg.p_nocorr_launch:
                self.ev[-1]["args"].pop("correlation", None)
        if keep_kernel:
            self.dev(cat, kname, stream, start, kdur, corr, **kargs)
        end_all = start + kdur
        if not is_mem and keep_kernel and rng.random() < cfg.p_graph_launch:
            for _ in range(rng.randint(1, 2)):
                d2 = rng.choice(cfg.kdur)
                s2 = end_all + rng.choice((0, 1))
                self.dev("kernel", rng.choice(K_COMP), stream, s2, d2, corr, queued=0)
                self.last_start[stream] = s2
                end_all = s2 + d2
        # the stream is busy regardless of whether the file shows the activity
        self.last_end[stream] = end_all
        self.launched.setdefault(stream, []).append(end_all)
        return t + dur_call

    def other_rt(self, tid: int, t: int) -> int:
        d = self.adv()
        self.host("cuda_runtime", self.rng.choice(OTHER_RUNTIME), tid, t, d, cbid=20, correlation=self.next_corr())
        return t + d

    def sync(self, tid: int, t: int) -> int:
        rng = self.rng
        corr = self.next_corr()
        if rng.random() < 0.6 and self.launched:
            stream = rng.choice(sorted(self.launched))
            wait_end = max(self.launched[stream])
            end = max(t + self.adv(), wait_end)
            self.host("cuda_runtime", "cudaStreamSynchronize", tid, t, end - t, cbid=131, correlation=corr)
            s0 = rng.choice([t, min(end, t + 1)])
            s1 = max(s0, min(end, max(wait_end, s0)))
            self.dev("cuda_sync", "Stream Sync", stream, s0, s1 - s0, corr, cuda_sync_kind="Stream Sync",
                     wait_on_stream=-1, wait_on_cuda_event_record_corr_id=-1, wait_on_cuda_event_id=-1)
            # a sync row occupies the stream row in the file but is not stream work
            return end
        return self._context_sync(tid, t, corr)

    def _context_sync(self, tid: int, t: int, corr: int) -> int:
        rng = self.rng
        wait_end = max([max(v) for v in self.launched.values()] + [t])
        end = max(t + self.adv(), wait_end)
        if rng.random() < 0.5:
            end = max(end, t + 1)       # the call takes time even when there is nothing left to wait for
        self.host("cuda_runtime", "cudaDeviceSynchronize", tid, t, end - t, cbid=165, correlation=corr)
        s0 = rng.choice([t, min(end, t + 1)])
        s1 = max(s0, min(end, max(wait_end, s0)))
        if s1 == s0 and end > t and rng.random() < 0.7:
            s0, s1 = t, end             # a sync record of positive length (the analysis ignores zero-length records of stream -1)
        e = {"ph": "X", "cat": "cuda_sync", "name": "Context Sync", "pid": 0, "tid": -1, "ts": s0, "dur": s1 - s0,
             "args": {"cuda_sync_kind": "Context Sync", "wait_on_stream": -1, "wait_on_cuda_event_record_corr_id": -1,
                      "wait_on_cuda_event_id": -1, "stream": 4294967295 if self.cfg.big_stream_marker else -1, "correlation": corr,
                      "device": 0, "context": 1}}
        self.ev.append(e)
        return end

    def tie_sync(self, tid: int, t: int) -> int:
        """One kernel per stream, all ending at the same instant, then a device synchronisation that waits for them: several
        equally long paths lead into the end of the synchronising call."""
        rng, cfg = self.rng, self.cfg
        streams = list(cfg.streams)
        rng.shuffle(streams)
        plan = []
        for s in streams:
            d = self.adv() + 1          # a launch call takes time (a zero-length one would nest inside the synchronising call that follows)
            start = max(t + rng.choice(cfg.kdelay), self.wait_until.get(s, 0), self.last_end.get(s, 0) + rng.choice((0, 1, 2)))
            if start <= self.last_start.get(s, -1):
                start = self.last_start[s] + 1
            plan.append((s, t, d, start))
            t += d          # back to back: top-level calls are chained by zero-weight edges, a gap would untie the paths
        T = max(p[3] for p in plan) + rng.choice((1, 2, 5))
        for s, t0, d, start in plan:
            corr = self.next_corr()
            self.host("cuda_runtime", "cudaLaunchKernel", tid, t0, d, cbid=211, correlation=corr)
            self.dev("kernel", rng.choice(K_COMP), s, start, T - start, corr, queued=0)
            self.last_start[s], self.last_end[s] = start, T
            self.launched.setdefault(s, []).append(T)
        if rng.random() < 0.5:
            # one of the streams is waited for on its own first (its kernel is then waited for twice with nothing launched in between)
            s = rng.choice(streams)
            corr = self.next_corr()
            end = max(t + self.adv(), T)
            self.host("cuda_runtime", "cudaStreamSynchronize", tid, t, end - t, cbid=131, correlation=corr)
            self.dev("cuda_sync", "Stream Sync", s, t, end - t, corr, cuda_sync_kind="Stream Sync",
                     wait_on_stream=-1, wait_on_cuda_event_record_corr_id=-1, wait_on_cuda_event_id=-1)
            d = self.adv() + 1
            self.host("cpu_op", rng.choice(HOST_OPS), tid, end, d, **{"Sequence number": self.ext})
            t = end + d
        return self._context_sync(tid, t, self.next_corr())

    def event_sync(self, tid: int, t: int) -> int:
        """cudaEventRecord on a stream, later cudaEventSynchronize / cudaStreamWaitEvent on it."""
        rng = self.rng
        if not self.records or rng.random() < 0.5:
            if not self.launched:
                return self.other_rt(tid, t)
            stream = rng.choice(sorted(self.launched))
            corr = self.next_corr()
            d = self.adv()
            self.host("cuda_runtime", "cudaEventRecord", tid, t, d, cbid=135, correlation=corr)
            evid = 9 + len(self.records)
            self.records[evid] = (corr, stream, max(self.launched[stream]))
            return t + d
        evid = rng.choice(sorted(self.records))
        rcorr, rstream, rend = self.records[evid]
        corr = self.next_corr()
        others = [s for s in self.cfg.streams if s != rstream]
        if others and rng.random() < 0.5:
            wstream = rng.choice(others)
            d = self.adv()
            self.host("cuda_runtime", "cudaStreamWaitEvent", tid, t, d, cbid=147, correlation=corr)
            self.dev("cuda_sync", "Stream Wait Event", wstream, t, 0, corr, cuda_sync_kind="Stream Wait Event",
                     wait_on_stream=rstream, wait_on_cuda_event_record_corr_id=rcorr, wait_on_cuda_event_id=evid)
            self.wait_until[wstream] = max(self.wait_until.get(wstream, 0), rend)
            return t + d
        end = max(t + self.adv(), rend)
        call = rng.choice(["cudaEventSynchronize", "cudaEventSynchronize", "cudaEventQuery"])
        if call == "cudaEventQuery":
            end = max(end, rend)
        self.host("cuda_runtime", call, tid, t, end - t, cbid=138, correlation=corr)
        s0 = rng.choice([t, min(end, t + 1)])
        e = {"ph": "X", "cat": "cuda_sync", "name": "Event Sync", "pid": 0, "tid": -1, "ts": s0, "dur": max(0, min(end, max(rend, s0)) - s0),
             "args": {"cuda_sync_kind": "Event Sync", "wait_on_stream": rstream, "wait_on_cuda_event_record_corr_id": rcorr,
                      "wait_on_cuda_event_id": evid, "stream": -1, "correlation": corr, "device": 0, "context": 1}}
        self.ev.append(e)
        return end

    # -- operators
    def op(self, tid: int, t: int, depth: int, names: List[str]):
        """Generator: yields its clock before every action; returns the clock at exit."""
        rng, cfg = self.rng, self.cfg
        name = rng.choice(names)
        start = t
        e = self.host("cpu_op", name, tid, start, 0, **{"Sequence number": self.ext, "Fwd thread id": 0})
        t += self.adv()
        n_children = rng.randint(0, cfg.max_children)
        for _ in range(n_children):
            yield t
            r = rng.random()
            if depth < cfg.max_depth and rng.random() < cfg.p_nested_annotation:
                t = yield from self.annotation(tid, "my_region", t, rng.randint(1, 2), names, depth=depth + 1)
            elif depth < cfg.max_depth and r < 0.45:
                t = yield from self.op(tid, t, depth + 1, names)
            else:
                t = self.leaf(tid, t)
            t += rng.choice((0, 0, 1)) if rng.random() < 0.7 else self.adv()
        t += self.adv() if n_children == 0 or rng.random() < 0.5 else 0
        e["dur"] = t - start
        if n_children and cfg.p_overhang and rng.random() < cfg.p_overhang and e["dur"] > 2:
            e["dur"] -= rng.choice((1, 2))
        elif e["dur"] > 0 and rng.random() < cfg.p_launch_after_op:
            yield t
            t = self.launch(tid, t)       # starts exactly where the operator ended
        return t

    def leaf(self, tid: int, t: int) -> int:
        rng, cfg = self.rng, self.cfg
        r = rng.random()
        if r < cfg.p_launch:
            return self.launch(tid, t)
        r -= cfg.p_launch
        if r < cfg.p_sync:
            return self.sync(tid, t)
        r -= cfg.p_sync
        if r < cfg.p_event_sync:
            return self.event_sync(tid, t)
        r -= cfg.p_event_sync
        if r < cfg.p_other_rt:
            return self.other_rt(tid, t)
        # a childless operator, possibly of zero duration
        d = self.adv()
        self.host("cpu_op", rng.choice(HOST_OPS), tid, t, d, **{"Sequence number": self.ext})
        return t + d

    def annotation(self, tid: int, name: str, t: int, n_ops: int, names: List[str], depth: int = 1):
        start = t
        e = self.host("user_annotation", name, tid, start, 0)
        t += self.adv()
        for _ in range(n_ops):
            yield t
            t = yield from self.op(tid, t, depth, names)
            t += self.adv()
        if t == start:
            t += 1          # a profiler step / annotation has positive length
        e["dur"] = t - start
        return t

    def main_thread(self, tid: int):
        rng, cfg = self.rng, self.cfg
        t = self.t0
        for _ in range(cfg.pre_ops):
            yield t
            t = yield from self.op(tid, t, 1, HOST_OPS)
            t += self.adv()
        for k in range(cfg.n_steps):
            yield t
            n_ops = rng.randint(*cfg.ops_per_step)
            if cfg.bwd_annotation and rng.random() < 0.8:
                start = t
                e = self.host("user_annotation", f"ProfilerStep#{cfg.first_step_no + k}", tid, start, 0)
                t += self.adv()
                t = yield from self.op(tid, t, 2, HOST_OPS)
                t += self.adv()
                t = yield from self.annotation(tid, "## backward ##", t, rng.randint(0, 2), HOST_OPS, depth=2)
                t += self.adv()
                e["dur"] = max(1, t - start)
                t = start + e["dur"]
            else:
                t = yield from self.annotation(tid, f"ProfilerStep#{cfg.first_step_no + k}", t, n_ops, HOST_OPS)
            if rng.random() < cfg.p_launch_at_step_end:
                yield t
                t = self.launch(tid, t)       # starts exactly where the step ended
            t += rng.choice((0, 0, 1, 4))     # gap between steps
            if rng.random() < 0.3:
                yield t
                t = yield from self.op(tid, t, 1, HOST_OPS)   # an operator between two steps
                t += self.adv()
        if cfg.tie_sync:
            yield t
            t = self.tie_sync(tid, t)
            t += self.adv()
            if rng.random() < 0.5:
                # the same kernels are waited for a second time with nothing launched in between (sync edges that skip over path nodes)
                yield t
                d = self.adv() + 1
                self.host("cpu_op", rng.choice(HOST_OPS), tid, t, d, **{"Sequence number": self.ext})      # a childless operator
                t += d + self.adv()
                yield t
                t = self._context_sync(tid, t, self.next_corr())
                t += self.adv()
        for _ in range(cfg.post_ops):
            yield t
            t = yield from self.op(tid, t, 1, HOST_OPS)
            t += self.adv()
        return t

    def side_thread(self, tid: int, names: List[str], n_ops: int, t0: int):
        t = t0
        for _ in range(n_ops):
            yield t
            t = yield from self.op(tid, t, 1, names)
            t += self.adv() + self.rng.choice((0, 0, 2))
        return t


def _run_threads(threads) -> None:
    """Resume the thread with the smallest clock until all have finished (global time order)."""
    live = []
    for g in threads:
        try:
            live.append([next(g), len(live), g])
        except StopIteration:
            pass
    while live:
        live.sort(key=lambda x: (x[0], x[1]))
        item = live[0]
        try:
            item[0] = next(item[2])
        except StopIteration:
            live.pop(0)


def _extras(rng: random.Random, sim: _Sim, events: List[Dict[str, Any]], lo: int, hi: int) -> List[Dict[str, Any]]:
    """Entries that must never become rows: metadata, flow, instant, the profiler's own Trace span."""
    ex = [
        {"name": "process_name", "ph": "M", "ts": lo, "pid": sim.pid, "tid": 0, "args": {"name": "python"}},
        {"name": "thread_name", "ph": "M", "ts": lo, "pid": sim.pid, "tid": sim.pid, "args": {"name": "thread main"}},
        {"name": "process_sort_index", "ph": "M", "ts": lo, "pid": 0, "tid": 0, "args": {"sort_index": 5000000}},
        {"ph": "X", "cat": "Trace", "ts": lo, "dur": max(1, hi - lo), "pid": "Spans", "tid": "PyTorch Profiler",
         "name": "PyTorch Profiler (0)", "args": {"Op count": 0}},
        {"name": "Iteration Start: PyTorch Profiler", "ph": "i", "s": "g", "pid": "Traces", "tid": "Trace PyTorch Profiler", "ts": lo},
        {"name": "Record Window End", "ph": "i", "s": "g", "pid": "", "tid": "", "ts": hi},
    ]
    # ac2g flow arrows for some linked pairs
    for e in events:
        if e.get("ph") == "X" and "correlation" in e.get("args", {}) and rng.random() < 0.4:
            is_dev = e["pid"] == 0
            f = {"ph": "f" if is_dev else "s", "id": e["args"]["correlation"], "pid": e["pid"], "tid": e["tid"],
                 "ts": e["ts"], "cat": "ac2g", "name": "ac2g"}
            if is_dev:
                f["bp"] = "e"
            ex.append(f)
    return ex


def gen_rank(rng: random.Random, cfg: GenCfg, rank: int) -> RankTrace:
    t0 = rng.choice(cfg.rank_skew) if rank else 0
    t0 += 2  # room for unlinked head activities
    sim = _Sim(rng, cfg, rank, t0)
    main_tid = sim.pid
    # device activities whose launch call lies outside the trace (as at the start of every real profile)
    tt = 0
    for _ in range(cfg.unlinked_head):
        s = rng.choice(cfg.streams)
        st = max(tt, sim.last_end.get(s, 0) + rng.choice(cfg.kgap))
        if not cfg.zero_len_same_start_ok and st <= sim.last_start.get(s, -1):
            st = sim.last_start[s] + 1
        sim.last_start[s] = st
        d = rng.choice(cfg.kdur)
        ev = sim.dev("kernel", rng.choice(K_COMP + K_COMM), s, st, d, sim.next_corr(), queued=0)
        if rng.random() < cfg.p_nocorr_head:
            del ev["args"]["correlation"]
            if cfg.p_nocorr_launch > 0 and rng.random() < 0.5:      # ... and it is a copy (bandwidth series: a copy needs no id to count)
                ev["cat"], ev["name"] = "gpu_memcpy", rng.choice(K_MEMCPY)
                del ev["args"]["queued"]
                ev["args"].update({"bytes": 1024, "memory bandwidth (GB/s)": rng.choice([1, 2, 4]) / 4.0})
        sim.last_end[s] = st + d
        tt = st
    threads = [sim.main_thread(main_tid)]
    if cfg.bwd_thread:
        threads.append(sim.side_thread(main_tid + 1, BWD_OPS + HOST_OPS[:2], rng.randint(1, 3), t0 + rng.choice((0, 1, 3, 6))))
    for k in range(cfg.n_extra_threads):
        threads.append(sim.side_thread(main_tid + 2 + k, HOST_OPS, rng.randint(1, 2), t0 + rng.choice((0, 2, 5))))
    first_host = None
    _run_threads(threads)
    events = sim.ev
    if cfg.bwd_end_tie and cfg.bwd_thread:
        bt = [e for e in events if e["pid"] == sim.pid and e["tid"] == main_tid + 1]
        tops = [e for e in bt if not any(o is not e and o["ts"] <= e["ts"] and e["ts"] + e["dur"] <= o["ts"] + o["dur"] and (o["dur"] > e["dur"] or o["ts"] < e["ts"]) for o in bt)]
        annos = [e for e in events if e["pid"] == sim.pid and e["tid"] == main_tid and e["cat"] == "user_annotation"
                 and (e["name"].startswith("## backward ##") or e["name"].startswith("ProfilerStep#"))]
        for a in annos:
            a_end = a["ts"] + a["dur"]
            inside = [x for x in tops if a["ts"] <= x["ts"] and x["ts"] + x["dur"] <= a_end and x["dur"] > 0]
            if not inside:
                continue
            x = max(inside, key=lambda e: e["ts"] + e["dur"])
            x_end = x["ts"] + x["dur"]
            if x_end < a_end and not any(o is not x and x_end <= o["ts"] < a_end for o in bt) and not any(o is not x and o["ts"] < a_end < o["ts"] + o["dur"] for o in bt):
                x["dur"] = a_end - x["ts"]
    if cfg.same_tid_process and cfg.n_extra_threads >= 1:
        for e in events:
            if e["pid"] == sim.pid and e["tid"] == main_tid + 2:
                e["pid"], e["tid"] = sim.pid + 500, main_tid
    lo = min(e["ts"] for e in events)
    hi = max(e["ts"] + e["dur"] for e in events)
    if cfg.loner:
        sim.host("cpu_op", "aten::linear", main_tid + 9, lo + rng.choice((0, 1, 3)), (hi - lo) + rng.choice((5, 50)), **{"Sequence number": 1})
        hi = max(e["ts"] + e["dur"] for e in events)
    if cfg.gpu_annotations:
        # GPU-side user annotations: per stream an outer region over a run of consecutive activities and, inside it, sometimes a
        # nested one over a sub-run (the "leaf" a kernel is attributed to)
        bystream: Dict[int, List[Dict[str, Any]]] = {}
        for e in events:
            if e["pid"] == 0 and e["cat"] in ("kernel", "gpu_memcpy", "gpu_memset"):
                bystream.setdefault(e["tid"], []).append(e)
        ext = 1
        for s_, ks in sorted(bystream.items()):
            ks.sort(key=lambda e: (e["ts"], e["dur"]))
            i = rng.randrange(len(ks))
            j = rng.randrange(i, len(ks))
            spans = [(i, j, rng.choice(["## forward ##", "my_region"]))]
            if j > i and rng.random() < 0.6:
                a = rng.randrange(i, j + 1)
                b = rng.randrange(a, j + 1)
                if (a, b) != (i, j):
                    spans.append((a, b, rng.choice(["## optimizer ##", "inner_region", "## forward ##"])))
            for a, b, nm in spans:
                lo_, hi_ = ks[a]["ts"], max(x["ts"] + x["dur"] for x in ks[a:b + 1])
                events.append({"ph": "X", "cat": "gpu_user_annotation", "name": nm, "pid": 0, "tid": s_,
                               "ts": lo_, "dur": hi_ - lo_, "args": {"External id": ext}})
                ext += 1
    if cfg.python_functions:
        ops = [e for e in events if e["pid"] != 0 and e["cat"] == "cpu_op" and e["dur"] > 0]
        for e in rng.sample(ops, min(len(ops), rng.randint(1, 4))):
            events.append({"ph": "X", "cat": "python_function", "name": rng.choice(["torch/nn/modules/module.py(1501): _call_impl",
                           "train.py(42): step", "<built-in method run_backward>"]), "pid": e["pid"], "tid": e["tid"], "ts": e["ts"], "dur": e["dur"],
                           "args": {"Python id": rng.randrange(1, 50)}})
    # file order
    host_plain = [e for e in events if e["pid"] != 0 and e["cat"] == "cpu_op"]
    first_host = rng.choice(host_plain) if cfg.shuffle else host_plain[0]
    rest = [e for e in events if e is not first_host]
    if cfg.extras:
        rest += _extras(rng, sim, events, lo, hi)
    if cfg.shuffle:
        rng.shuffle(rest)
    pad = [{"name": "thread_name", "ph": "M", "ts": lo, "pid": sim.pid, "tid": 100000 + k, "args": {"name": f"pt_worker_{k}"}}
           for k in range(cfg.pad_entries)]
    out = [first_host] + pad + rest
    # time unit and epoch offset
    base = cfg.base
    for e in out:
        if "ts" in e:
            e["ts"] = _to_us(e["ts"], cfg.frac, base)
        if "dur" in e:
            e["dur"] = _dur_us(e["dur"], cfg.frac)
    meta = {"schemaVersion": 1, "distributedInfo": {"backend": "nccl", "rank": rank, "world_size": cfg.n_ranks},
            "deviceProperties": [{"id": 0, "name": "GPU", "numSms": 108}], "traceName": f"rank{rank}.json"}
    return RankTrace(rank=rank, events=out, meta=meta, fmt=cfg.fmt, ticks=cfg.frac, base=base)


def _to_us(ticks: int, frac: int, base: int):
    if frac == 1:
        return base + ticks
    q, r = divmod(ticks, frac)
    return base + q + r / frac if r else float(base + q) if (ticks % 3 == 0) else base + q


def _dur_us(ticks: int, frac: int):
    if frac == 1:
        return ticks
    q, r = divmod(ticks, frac)
    return q + r / frac if r else q


def gen_trace_set(rng: random.Random, cfg: GenCfg) -> List[RankTrace]:
    if cfg.n_steps == 0 and cfg.pre_ops == 0 and cfg.post_ops == 0:
        cfg.pre_ops = 1          # a trace has at least one operator
    import dataclasses
    out = [gen_rank(rng, dataclasses.replace(cfg, **cfg.per_rank[r]) if cfg.per_rank and r in cfg.per_rank else cfg, r)
           for r in range(cfg.n_ranks)]
    if cfg.rank_ids:
        for rt, rid in zip(out, cfg.rank_ids):
            rt.rank = rid
            rt.meta["distributedInfo"]["rank"] = rid
            rt.meta["traceName"] = f"rank{rid}.json"
    if cfg.big_vocab and len(out) >= 2:
        r0 = out[0]
        hosts = [e for e in r0.events if e.get("cat") == "cpu_op" and e.get("ph") == "X"]
        for k in range(140):
            if k < len(hosts) - 1:
                hosts[k + 1]["name"] = f"aten::u{k}"          # the first file entry keeps its name
            else:           # not enough operators: tiny extra ones on a thread of their own
                r0.events.append({"ph": "X", "cat": "cpu_op", "name": f"aten::u{k}", "pid": hosts[0]["pid"], "tid": hosts[0]["tid"] + 50,
                                  "ts": hosts[0]["ts"], "dur": 0, "args": {"External id": 9000 + k}})
        for rt in out[1:]:
            own = [e for e in rt.events[1:] if e.get("cat") == "cpu_op" and e.get("ph") == "X"]
            if own:
                rng.choice(own)["name"] = f"aten::only_rank{rt.rank}"
    return out


def write_trace_set(ranks: List[RankTrace], d: str) -> List[str]:
    os.makedirs(d, exist_ok=True)
    paths = []
    for rt in ranks:
        p = os.path.join(d, f"rank{rt.rank}." + rt.fmt)
        data = json.dumps(rt.to_json())
        if rt.fmt.endswith(".gz"):
            with gzip.open(p, "wt") as f:
                f.write(data)
        else:
            with open(p, "w") as f:
                f.write(data)
        paths.append(p)
    return paths
