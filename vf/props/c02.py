"""C02 - correlation links pair each launch call with its device activity, mutually."""
from ..core import Prop
from .load import gen_load_case, observe_load


class C02(Prop):
    id = "C02"
    trace_module = "Trace_Load"
    mc = [{"module": "MC_Links", "quick": "MC_Links_quick.cfg", "thorough": "MC_Links.cfg", "actions": ["InitSentinel", "MergeRow", "Done"]}]
    n_cases = {"quick": 300, "thorough": 5000}
    rule = ("seeded generator with missing launches / missing kernels (p in {0,0.1,0.3}), Event/Context Sync records on stream -1, Stream Sync / "
            "Stream Wait Event on stream rows, device activities whose launch lies outside the trace; links observed on parse-only and on loaded "
            "(trimmed) frames; non-trivial iff some partner is missing or a synchronisation record sits on stream -1")
    assumptions = ["WellFormed (re-evaluated by TLC on every recorded frame): one host call and one device activity per correlation id, positive stream ids, first file entry a host operator without correlation id"]

    def gen_case(self, rng, k, tier):
        return gen_load_case(rng, tier, "C02", k)

    def observe(self, case):
        return observe_load(case, "C02")

    def nontrivial(self, case, obs):
        for fr in obs.get("parsed", []):
            for x in fr["rows"]:
                if x["link"] == 0 or x["name"] in ("Event Sync", "Context Sync"):
                    return True
        return False


PROP = C02()
