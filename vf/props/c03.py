from .callstack import C03

PROP = C03()
