"""C05 - kernel breakdown partitions busy time by type and conserves per-kernel time."""
from __future__ import annotations

from typing import Any, Dict

from .. import gen, hta
from ..core import Prop
from .c04 import maybe_fractional, breakdown_cfg
from .common import file_entries, case_from_cfg, draw_prefix, frame_rows, write_and_load


class C05(Prop):
    id = "C05"
    trace_module = "Trace_Breakdown"
    mc = [{"module": "MC_Breakdown", "quick": "MC_Breakdown_quick.cfg", "thorough": "MC_Breakdown.cfg",
           "actions": ["MergeRow", "EndPass", "SweepRow", "Finish"]}]
    n_cases = {"quick": 300, "thorough": 4000}
    rule = ("seeded generator: 1-3 ranks, 1-3 streams, computation / communication / memory kernels with 1-4 distinct names per class and repeated "
            "instances; num_kernels in {1,2,3,10}, duration_ratio in {0.1,0.5,0.8,1.0}, include_memory_kernels on/off; non-trivial iff two classes "
            "overlap in time and some class has more distinct names than num_kernels")
    assumptions = ["inputs are the rows of the loaded frames (stream != -1); which names fall into 'others' is not specified by the statement and not asserted",
                   "mean is compared after scaling by 1000 with a tolerance of one unit per kernel"]

    def gen_case(self, rng, k, tier):
        for _ in range(50):
            cfg = breakdown_cfg(rng, tier)
            cfg.p_comm = rng.choice([0.2, 0.4])
            cfg.p_mem = rng.choice([0.2, 0.4])
            cfg.p_launch = rng.choice([0.7, 0.9])
            cfg.max_children = 4
            if k % 10 == 2:
                # long activities of all three types on three streams, back to back: all three types are running at the same time somewhere
                cfg.streams, cfg.p_mem, cfg.p_comm, cfg.kdur, cfg.kgap, cfg.p_launch = (7, 9, 13), 0.4, 0.4, (4, 9, 20), (0, 0, 0, 1), 0.9
            case = case_from_cfg(rng, cfg)
            if all(any(e.get("pid") == 0 and e.get("ph") == "X" for e in r["events"]) for r in case["ranks"]):
                maybe_fractional(rng, case, k)
                case["numK"] = rng.choice([1, 1, 2, 3, 10])
                case["ratio"] = rng.choice([0.1, 0.5, 0.8, 1.0])
                case["incMem"] = True if k % 10 == 2 else rng.random() < 0.5
                case["prefix"] = draw_prefix(rng)
                if k % 4 == 3:      # the second public entry point of the aggregator: user-annotation breakdown
                    if not cfg.gpu_annotations:
                        continue
                    case["entry"] = "anno"
                    case["gpu"] = rng.random() < 0.5
                    case["allow"] = rng.random() < 0.3
                return case
        raise RuntimeError("no device activities")

    def observe(self, case: Dict[str, Any]) -> Dict[str, Any]:
        if case.get("entry") == "anno":
            return self._observe_anno(case)
        with hta.CaseDir("c05") as d:
            ta = write_and_load(case, d)
            ranks = sorted(ta.t.traces)
            u = int(case.get("u", 1))
            rows = {r: frame_rows(ta, r, u=u) for r in ranks}
            if any(not any(x["stream"] != -1 for x in rows[r]) for r in ranks):
                return {"skip": True}
            obs = {"prop": "C05", "err": "", "incMem": bool(case["incMem"]), "numK": case["numK"],
                   "ranks": [{"rank": r, "file": file_entries(case, r), "rows": rows[r]} for r in ranks], "types": [], "kernels": []}
            try:
                tdf, kdf = ta.get_gpu_kernel_breakdown(visualize=False, duration_ratio=case["ratio"], num_kernels=case["numK"],
                                                       include_memory_kernels=case["incMem"])
                for t in tdf[["kernel_type", "sum", "percentage"]].itertuples(index=False):
                    obs["types"].append({"name": str(t[0]), "sum": hta.ival(t[1] * u), "pct": hta.scaled(t[2], 10)})
                for t in kdf[["name", "sum (us)", "max (us)", "min (us)", "mean (us)", "kernel_type", "rank"]].itertuples(index=False):
                    obs["kernels"].append({"name": str(t[0]), "sum": hta.ival(t[1] * u), "max": hta.scaled(t[2], u), "min": hta.scaled(t[3], u),
                                           "mean1000": hta.scaled(t[4], 1000 * u), "type": str(t[5]), "rank": hta.ival(t[6])})
            except Exception as ex:
                obs["err"] = hta.exc_str(ex)
            return obs

    def _observe_anno(self, case: Dict[str, Any]) -> Dict[str, Any]:
        with hta.CaseDir("c05a") as d:
            ta = write_and_load(case, d, include_last=True)
            ranks = sorted(ta.t.traces)
            cat = "gpu_user_annotation" if case["gpu"] else "user_annotation"
            st = ta.t.symbol_table.get_sym_table()
            obs = {"prop": "C05A", "err": "", "numK": case["numK"], "allow": bool(case["allow"]), "ranks": [], "kernels": []}
            for r in ranks:
                df = ta.t.get_trace(r)
                annos = [{"id": int(i), "name": st[int(n)], "dur": hta.ival(du)} for i, n, c, du in zip(df["index"], df["name"], df["cat"], df["dur"]) if st[int(c)] == cat]
                obs["ranks"].append({"rank": r, "rows": [], "annos": annos})
            if not any(rk["annos"] for rk in obs["ranks"]):
                return {"skip": True}
            # beyond the listed property: each GPU kernel is attributed to the innermost ("leaf") GPU annotation of its stream it overlaps
            obs["ka"], obs["gannos"], obs["kaErr"] = [], [], ""
            try:
                r0 = ranks[0]
                kdf = ta.get_gpu_kernels_with_user_annotations(rank=r0, expand_names=False)
                df0 = ta.t.get_trace(r0)
                obs["gannos"] = [{"id": int(i), "name": st[int(n)], "ts": hta.ival(ts), "dur": hta.ival(du), "pid": hta.ival(p_), "tid": hta.ival(t_)}
                                 for i, n, c, ts, du, p_, t_ in zip(df0["index"], df0["name"], df0["cat"], df0["ts"], df0["dur"], df0["pid"], df0["tid"])
                                 if st[int(c)] == "gpu_user_annotation"]
                if kdf is not None:
                    for i, ts, du, p_, t_, ua in zip(kdf["index"], kdf["ts"], kdf["dur"], kdf["pid"], kdf["tid"], kdf["user_annotation"]):
                        obs["ka"].append({"id": int(i), "ts": hta.ival(ts), "dur": hta.ival(du), "pid": hta.ival(p_), "tid": hta.ival(t_),
                                          "anno": "" if int(ua) < 0 else st[int(ua)]})
                elif obs["gannos"]:
                    obs["kaErr"] = "returned None although GPU annotations exist"
            except Exception as ex:
                obs["kaErr"] = hta.exc_str(ex)
            try:
                res = ta.get_gpu_user_annotation_breakdown(use_gpu_annotation=case["gpu"], visualize=False, duration_ratio=case["ratio"],
                                                           num_kernels=case["numK"], allowlist_patterns=["ProfilerStep", "my_region"] if case["allow"] else None)
                if res is None:
                    obs["err"] = "returned None although annotations exist"
                    return obs
                for t in res[["name", "sum (us)", "max (us)", "min (us)", "mean (us)", "rank"]].itertuples(index=False):
                    obs["kernels"].append({"name": str(t[0]), "sum": hta.ival(t[1]), "max": hta.scaled(t[2], 1), "min": hta.scaled(t[3], 1),
                                           "mean1000": hta.scaled(t[4], 1000), "type": "", "rank": hta.ival(t[5])})
            except Exception as ex:
                obs["err"] = hta.exc_str(ex)
            return obs

    def nontrivial(self, case, obs) -> bool:
        if obs.get("prop") == "C05A":
            return any(len({a["name"] for a in rk["annos"]}) > obs["numK"] for rk in obs["ranks"])
        names = {}
        for rk in obs["ranks"]:
            for x in rk["rows"]:
                if x["stream"] != -1 and x["name"] in gen.KCLASS:
                    names.setdefault((rk["rank"], gen.KCLASS[x["name"]]), set()).add(x["name"])
        many = any(len(v) > obs["numK"] for v in names.values())
        overlap = False
        for rk in obs["ranks"]:
            acts = [(x["ts"], x["ts"] + x["dur"], gen.KCLASS.get(x["name"])) for x in rk["rows"] if x["stream"] != -1 and x["name"] in gen.KCLASS]
            for a in acts:
                for b in acts:
                    if a[2] != b[2] and a[0] < b[1] and b[0] < a[1]:
                        overlap = True
        return many and overlap


PROP = C05()
