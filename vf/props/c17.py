"""C17 - trace diff counts and durations are exact; change classes partition the names."""
from __future__ import annotations

import random
from typing import Any, Dict, List

from .. import gen, hta
from ..core import Prop


def _side_rows(trace_dir: str, u: int = 1) -> List[Dict[str, Any]]:
    """The events a comparison side stands for: a FRESH parse of the side's trace directory (parse only, nothing aligned or trimmed),
    never the frames of the LabeledTrace object under test."""
    from hta.common.trace import Trace
    t = Trace(trace_dir=trace_dir)
    t.parse_traces(use_multiprocessing=False)
    st = t.symbol_table.get_sym_table()
    rows = []
    for r in sorted(t.traces):
        df = t.get_trace(r)
        for tup in df[["index", "name", "dur", "stream", "iteration", "correlation"]].itertuples(index=False):
            rows.append({"rank": int(r), "id": hta.ival(tup[0]), "name": st[int(tup[1])], "dur": hta.ival(float(tup[2]) * u), "stream": hta.ival(tup[3]),
                         "iter": hta.ival(tup[4]), "corr": hta.ival(tup[5])})
    return rows


def _mk_set(rng: random.Random, n_ranks: int, steps: int, first: int, variant: int, per_rank=None) -> List[Dict[str, Any]]:
    cfg = gen.GenCfg(per_rank=per_rank, n_ranks=n_ranks, n_steps=steps, first_step_no=first, p_launch=rng.choice([0.4, 0.7]), p_mem=0.2, p_comm=0.3,
                     p_sync=rng.choice([0, 0.1]), streams=rng.choice([(7,), (7, 9)]), max_children=rng.choice([2, 3]),
                     ops_per_step=(1, 2 + variant), base=rng.choice([0, 1000]), fmt=rng.choice(["json", "json.gz"]),
                     p_graph_launch=rng.choice([0.0, 0.0, 0.25]))
    return [r.__dict__ for r in gen.gen_trace_set(rng, cfg)]


class C17(Prop):
    id = "C17"
    trace_module = "Trace_Diff"
    mc = [{"module": "MC_Diff", "quick": "MC_Diff.cfg", "thorough": "MC_Diff.cfg", "actions": ["FileRow"]}]
    n_cases = {"quick": 120, "thorough": 1500}
    rule = ("pairs of generated trace sets (1-3 ranks each, 1-3 profiler steps, different sizes and kernel mixes; a third of the pairs compare a "
            "trace set with itself - through two objects, or through the very same LabeledTrace object); rank selection: default / single / list "
            "(incl. proper subsets of >= 2 ranks); iteration selection: default / single / list; DeviceType CPU/GPU/ALL; long or short names; "
            "non-trivial iff at least three of the five change classes are non-empty or a rank list of size >= 2 is used")
    assumptions = ["events, iteration numbers and durations are those of the frames LabeledTrace parses (parse-only); the short-name table for the "
                   "vocabulary is written in TraceModel.tla (ShortName)"]

    def gen_case(self, rng, k, tier):
        steps = rng.choice([1, 2, 3])
        first = rng.choice([0, 3, 8, 9])        # 8, 9: the step number gains a digit inside the trace
        nr = rng.choice([1, 2, 3])
        case: Dict[str, Any] = {"control": _mk_set(rng, nr, steps, first, 0), "id_k": k}
        mode = rng.choice(["other", "other", "self2", "sameobj", "shrunk", "shrunk"])
        case["mode"] = mode
        if mode == "shrunk":
            # the same program with fewer calls: identical name sets on both sides, smaller counts and durations on the test side
            import copy
            test = copy.deepcopy(case["control"])
            for rk in test:
                evs = rk["events"]
                names: Dict[str, int] = {}
                for e in evs:
                    if e.get("ph") == "X" and "dur" in e:
                        names[e["name"]] = names.get(e["name"], 0) + 1
                keep = []
                for i, e in enumerate(evs):
                    leaf = e.get("ph") == "X" and "dur" in e and e.get("cat") in ("cpu_op", "kernel", "gpu_memcpy", "gpu_memset") and i > 0 and \
                        not any(o is not e and o.get("ph") == "X" and "dur" in o and o["pid"] == e["pid"] and o["tid"] == e["tid"]
                                and e["ts"] <= o["ts"] and o["ts"] + o["dur"] <= e["ts"] + e["dur"] for o in evs)
                    if leaf and names[e["name"]] >= 2 and rng.random() < 0.4:
                        names[e["name"]] -= 1
                        continue
                    keep.append(e)
                rk["events"] = keep
            case["test"] = test
            case["mode"] = mode = "other"
            case["shrunk"] = True
        elif mode == "other":
            nr2 = rng.choice([1, 2, 3])
            case["test"] = _mk_set(rng, nr2, rng.choice([1, 2, 3]), rng.choice([first, first, 7, 9]), 1)
        def sel(n_ranks, steps_, first_):
            rk = rng.choice(["default", "one", "list", "list"])
            ranks = None if rk == "default" else rng.randrange(n_ranks) if rk == "one" else sorted(rng.sample(range(n_ranks), rng.randint(1, n_ranks)))
            it = rng.choice(["default", "one", "list"])
            its = list(range(first_, first_ + steps_))
            iters = None if it == "default" else rng.choice(its) if it == "one" else sorted(rng.sample(its, rng.randint(1, len(its))))
            return ranks, iters
        case["csel"] = sel(nr, steps, first)
        if case.get("shrunk"):
            case["tsel"] = case["csel"]          # the same ranks and iterations on both sides: identical name sets, smaller numbers
        elif mode == "other":
            t0 = case["test"][0]
            tsteps = sorted(int(e["name"].split("#")[1]) for e in t0["events"] if str(e.get("name", "")).startswith("ProfilerStep#"))
            case["tsel"] = sel(len(case["test"]), len(tsteps), tsteps[0])
        elif rng.random() < 0.4:
            case["tsel"] = sel(nr, steps, first)      # the same trace on both sides, other ranks / iterations: not a self comparison
            case["mode"] += "_othersel"
        else:
            case["tsel"] = case["csel"]
        case["labels"] = rng.choice(["AB", "AB", "AA"])   # two objects may carry the same label (e.g. a collision of default labels)
        case["from_loaded"] = rng.random() < 0.25
        if k % 6 == 5:
            from .cp import fractional_durations
            for side in ("control", "test"):
                if side in case and all(r["ticks"] == 1 for r in case[side]):
                    fractional_durations(rng, {"ranks": case[side]})
            case["u"] = 4
        case["dev"] = rng.choice(["CPU", "GPU", "ALL"])
        case["short"] = rng.random() < 0.4
        if k % 8 == 3 and case["mode"] == "other" and not case.get("shrunk") and k % 6 != 5:
            # ranks that captured DIFFERENT profiler steps: the middle rank of the control side has no event in the selected iteration (an
            # empty group between two non-empty ones); the selection is valid, the step exists in the trace set
            case["control"] = _mk_set(random.Random(1000 + k), 3, steps, first, 0, per_rank={1: {"first_step_no": first + steps + 1}})
            case["csel"] = ([0, 1, 2], first if k % 16 == 3 else [first])
            case["from_loaded"] = False
        return case

    def observe(self, case):
        from hta.trace_diff import DeviceType, LabeledTrace, TraceDiff
        obs: Dict[str, Any] = {"prop": "C17", "err": "", "dev": case["dev"], "short": bool(case["short"]), "table": [], "table2": [],
                               "classes": {k: [] for k in ("added", "deleted", "increased", "decreased", "unchanged")},
                               "hasClasses": False, "self": case["mode"] in ("self2", "sameobj"), "sameObj": case["mode"].startswith("sameobj")}
        la, lb = case.get("labels", "AB")
        with hta.CaseDir("c17") as d:
            gen.write_trace_set([gen.RankTrace(**r) for r in case["control"]], d + "/c")
            u = int(case.get("u", 1))

            def labeled(label, trace_dir):
                if case.get("from_loaded"):
                    # built from the Trace of a TraceAnalysis session (aligned, trimmed): the comparison is still about the whole trace
                    from hta.trace_analysis import TraceAnalysis
                    return LabeledTrace(label=label, t=TraceAnalysis(trace_dir=trace_dir).t)
                return LabeledTrace(label=label, trace_dir=trace_dir)
            lc = labeled(la, d + "/c")
            dirs = {"c": d + "/c", "t": d + "/c"}
            if case["mode"] == "other":
                gen.write_trace_set([gen.RankTrace(**r) for r in case["test"]], d + "/t")
                lt = labeled(lb, d + "/t")
                dirs["t"] = d + "/t"
            elif case["mode"].startswith("self2"):
                lt = labeled(lb, d + "/c")
            else:
                lt = lc
            side_rows = {k: _side_rows(v, u) for k, v in dirs.items()}

            def norm(side_lt, sel, key):
                ranks, iters = sel
                rr = sorted({x["rank"] for x in side_rows[key]})[:1] if ranks is None else [ranks] if isinstance(ranks, int) else list(ranks)
                # the default is the FIRST iteration: the smallest profiler-step number of the trace, read off the rows (not asked of the
                # object under test)
                steps = sorted({int(x["name"].split("#")[1]) for x in side_rows[key] if x["name"].startswith("ProfilerStep#")})
                ii = steps[:1] if iters is None else [iters] if isinstance(iters, int) else list(iters)
                if iters is None and not steps:
                    raise ValueError("no iterations")
                return rr, ii
            try:
                cr, ci = norm(lc, case["csel"], "c")
                tr, ti = norm(lt, case["tsel"], "t")
                obs["c"] = {"rows": side_rows["c"], "ranks": cr, "iters": ci}
                obs["t"] = {"rows": side_rows["t"], "ranks": tr, "iters": ti}
            except Exception as ex:       # e.g. a trace without iterations: outside the quantifier ("valid selections")
                return {"skip": True}
            dev = getattr(DeviceType, case["dev"])
            try:
                if case["mode"] == "other" and not case.get("from_loaded") and case["id_k"] % 3 == 0:
                    # the directory-string form of the arguments, in a history: first the two directories with exchanged roles (discarded), then
                    # the call that is validated -- what a directory meant in an earlier call says nothing about this one
                    TraceDiff.compare_traces(dirs["t"], dirs["c"], case["tsel"][0], case["csel"][0], case["tsel"][1], case["csel"][1], dev, case["short"])
                    df = TraceDiff.compare_traces(dirs["c"], dirs["t"], case["csel"][0], case["tsel"][0], case["csel"][1], case["tsel"][1], dev, case["short"])
                else:
                    df = TraceDiff.compare_traces(lc, lt, case["csel"][0], case["tsel"][0], case["csel"][1], case["tsel"][1], dev, case["short"])
                cl, tl = str(df.columns[0])[:-len("_counts")], str(df.columns[2])[:-len("_counts")]
                for name, row in df.iterrows():
                    obs["table"].append({"name": str(name), "cc": hta.oval(row[f"{cl}_counts"]), "tc": hta.oval(row[f"{tl}_counts"]),
                                         "cd": hta.oval(float(row[f"{cl}_total_duration"]) * u), "td": hta.oval(float(row[f"{tl}_total_duration"]) * u),
                                         "dc": hta.oval(row["diff_counts"]), "dd": hta.oval(float(row["diff_duration"]) * u),
                                         "cat": str(row["counts_change_categories"])})
                # history on the same LabeledTrace objects: ops_diff (always long names), then the comparison in the other name mode
                lc.label, lt.label = (la, lb) if lc is not lt else (la, la)
                res = TraceDiff.ops_diff(lc, lt, case["csel"][0], case["tsel"][0], case["csel"][1], case["tsel"][1], dev)
                obs["classes"] = {k: [str(x) for x in v] for k, v in res.items()}
                obs["hasClasses"] = True
                lc.label, lt.label = (la, lb) if lc is not lt else (la, la)
                df2 = TraceDiff.compare_traces(lc, lt, case["csel"][0], case["tsel"][0], case["csel"][1], case["tsel"][1], dev, not case["short"])
                cl, tl = str(df2.columns[0])[:-len("_counts")], str(df2.columns[2])[:-len("_counts")]
                for name, row in df2.iterrows():
                    obs["table2"].append({"name": str(name), "cc": hta.oval(row[f"{cl}_counts"]), "tc": hta.oval(row[f"{tl}_counts"]),
                                          "cd": hta.oval(float(row[f"{cl}_total_duration"]) * u), "td": hta.oval(float(row[f"{tl}_total_duration"]) * u),
                                          "dc": hta.oval(row["diff_counts"]), "dd": hta.oval(float(row["diff_duration"]) * u),
                                          "cat": str(row["counts_change_categories"])})
            except Exception as ex:
                obs["err"] = hta.exc_str(ex)
        return obs

    def nontrivial(self, case, obs):
        n = sum(1 for v in obs["classes"].values() if v)
        return n >= 3 or len(obs.get("c", {}).get("ranks", [])) >= 2


PROP = C17()
