"""C08 (graph), C09 (critical path), C10 (breakdown): shared observation of critical-path analysis."""
from __future__ import annotations

import copy
import os
import random
from typing import Any, Dict, List

from .. import gen, hta
from ..core import Prop
from .common import file_entries, case_from_cfg, draw_prefix, write_and_load

TYPES = {"critical_path_operator": "op", "critical_path_dependency": "dep", "critical_path_kernel_launch_delay": "launch",
         "critical_path_kernel_kernel_delay": "k2k", "critical_path_sync_dependency": "sync"}


def cp_cfg(rng: random.Random, tier: str) -> gen.GenCfg:
    return gen.GenCfg(
        n_ranks=rng.choice([1, 1, 2]), n_steps=rng.choice([0, 1, 2, 3]),
        p_launch=rng.choice([0.4, 0.7]), p_mem=0.2, p_comm=0.3,
        p_sync=rng.choice([0.0, 0.1, 0.2]), p_event_sync=rng.choice([0.0, 0.1, 0.1]),
        streams=rng.choice([(7,), (7, 9), (7, 9, 13)]),
        adv=rng.choice([(0, 0, 1, 1, 2, 3), (1, 2, 3), (0, 1, 2)]),
        kdelay=rng.choice([(0, 0, 1, 2, 4), (1, 2, 4)]), kgap=rng.choice([(0, 0, 1, 2, 5), (0, 1, 5, 30)]),
        base=rng.choice([0, 1000, 10 ** 6]), zero_len_same_start_ok=False,
        bwd_thread=rng.random() < 0.25, bwd_annotation=rng.random() < 0.3,
        max_depth=rng.choice([2, 3, 4]), max_children=rng.choice([2, 3]), pre_ops=rng.choice([0, 1]), post_ops=rng.choice([0, 1]),
        p_launch_at_step_end=rng.choice([0.0, 0.3]), corr_base=rng.choice([100, 100, 0]), big_vocab=rng.random() < 0.2, unlinked_head=rng.choice([0, 0, 1]), p_nested_annotation=rng.choice([0.0, 0.15, 0.3]), loner=rng.random() < 0.15,
    )


def gen_cp_case(rng: random.Random, tier: str) -> Dict[str, Any]:
    cfg = cp_cfg(rng, tier)
    if rng.random() < 0.4:      # contention: a second thread launches onto the same streams while the first one synchronises
        cfg.bwd_thread = True
        cfg.p_sync = 0.3
        cfg.p_launch = 0.6
        cfg.n_ranks = 1
        cfg.adv = (0, 1, 1, 2)
        cfg.kdur = (3, 5, 8)
        cfg.kgap = (0, 0, 1)
        cfg.streams = (7, 9)
        cfg.n_steps = rng.choice([0, 1])
        cfg.max_children = 3
    if cfg.n_steps == 0 and cfg.pre_ops == 0 and cfg.post_ops == 0:
        cfg.pre_ops = 1
    case = case_from_cfg(rng, cfg)
    if cfg.bwd_thread and cfg.p_sync > 0:
        case["late"] = late_kernels(rng, case)
    case["rank"] = rng.randrange(cfg.n_ranks)
    case["incl"] = rng.random() < 0.6
    case["zero"] = rng.random() < 0.4
    case["ann"] = rng.choice(["ProfilerStep", "ProfilerStep", "", "## backward ##"])
    case["inst"] = rng.choice(["none", "k", "range"])
    case["iseed"] = rng.randrange(1000)
    case["prefix"] = draw_prefix(rng)
    return case


U = 1      # ticks per microsecond of the case being observed: every time / weight is recorded as an integer number of ticks


def _tk(x: Any) -> int:
    return hta.ival(float(x) * U)


def frame_rows_cp(df, st) -> List[Dict[str, Any]]:
    cols = ["index", "ts", "dur", "pid", "tid", "stream", "correlation", "index_correlation", "name", "cat"]
    out = []
    for t in df[cols].itertuples(index=False):
        out.append({"id": hta.ival(t[0]), "ts": _tk(t[1]), "dur": _tk(t[2]), "pid": hta.ival(t[3]), "tid": hta.ival(t[4]),
                    "stream": hta.ival(t[5]), "corr": hta.ival(t[6]), "link": hta.ival(t[7]), "name": st[int(t[8])], "cat": st[int(t[9])]})
    return out


def project_graph(cp) -> Dict[str, Any]:
    nodes = [{"idx": int(n.idx), "ev": int(n.ev_idx), "ts": _tk(n.ts), "start": bool(n.is_start)} for n in cp.node_list]
    edges = []
    for u, v, data in cp.edges(data=True):
        e = data["object"]
        a = cp.edge_to_event_map.get((u, v), None)
        edges.append({"u": int(u), "v": int(v), "w": _tk(e.weight), "gw": _tk(data["weight"]), "type": TYPES[e.type.value],
                      "attr": -9 if a is None else int(a)})
    return {"nodes": nodes, "edges": edges}


def project_path(cp) -> Dict[str, Any]:
    return {"path": [int(n) for n in cp.critical_path_nodes],
            "pedges": [[int(e.begin), int(e.end)] for e in cp.critical_path_edges_set],
            "pevents": sorted(int(x) for x in cp.critical_path_events_set)}


def run_analysis(ta, case):
    """Resolve the annotation / instance request against the loaded frame and call the public entry point."""
    r = case["rank"] if case["rank"] in ta.t.traces else sorted(ta.t.traces)[0]
    df = ta.t.get_trace(r)
    st = ta.t.symbol_table.get_sym_table()
    ann = case["ann"]
    rr = random.Random(case["iseed"])
    if ann != "":
        n_inst = int(df["name"].apply(lambda i: ann in st[int(i)]).sum())
        if n_inst == 0:
            ann, n_inst = "", 0
    if ann == "":
        inst = None
    elif case["inst"] == "none":
        inst = None
    elif case["inst"] == "k":
        inst = rr.randrange(n_inst)
    else:
        a = rr.randrange(n_inst)
        inst = (a, rr.randrange(a, n_inst))
    return r, ann, inst


def skew_case(rng: random.Random) -> Dict[str, Any]:
    """Two busy host threads inside one profiler step; thread A waits in a device synchronisation while thread B launches a kernel that ends
    0-3 us AFTER the synchronising call returned (A did not wait for it).  Both threads start with the step and A works until its end, so a
    path that (wrongly) runs through B's kernel back into A's call is longer than the step."""
    pid, A, B = 4000, 4000, 4001
    base = rng.choice([0, 1000, 5000])
    L = rng.randint(60, 120)
    s0 = rng.randint(15, 25)                 # A: sync begins
    e = rng.randint(s0 + 15, L - 15)         # A: sync returns
    delta = rng.choice([0, 1, 1, 2, 2, 3])
    ev: List[Dict[str, Any]] = []

    def host(cat, name, tid, ts, dur, **a):
        args = {"External id": len(ev) + 1}
        args.update(a)
        ev.append({"ph": "X", "cat": cat, "name": name, "pid": pid, "tid": tid, "ts": base + ts, "dur": dur, "args": args})

    def dev(name, stream, ts, dur, corr, cat="kernel", **a):
        args = {"device": 0, "context": 1, "stream": stream, "correlation": corr}
        args.update(a)
        ev.append({"ph": "X", "cat": cat, "name": name, "pid": 0, "tid": stream, "ts": base + ts, "dur": dur, "args": args})

    host("cpu_op", "aten::mm", A, 1, s0 - 2)                                    # first file entry: a host operator
    host("user_annotation", "ProfilerStep#1", A, 0, L)
    host("cuda_runtime", "cudaLaunchKernel", A, 3, 2, cbid=211, correlation=11)
    k1_end = rng.randint(s0 + 2, e)                                             # A's own kernel: the sync waits for it
    dev(rng.choice(gen.K_COMP), 7, 6, k1_end - 6, 11, queued=0)
    host("cuda_runtime", "cudaDeviceSynchronize", A, s0, e - s0, cbid=165, correlation=12)
    ev.append({"ph": "X", "cat": "cuda_sync", "name": "Context Sync", "pid": 0, "tid": -1, "ts": base + s0 + 1, "dur": e - s0 - 1,
               "args": {"cuda_sync_kind": "Context Sync", "stream": -1, "correlation": 12, "device": 0, "context": 1,
                        "wait_on_stream": -1, "wait_on_cuda_event_record_corr_id": -1, "wait_on_cuda_event_id": -1}})
    host("cpu_op", "aten::sum", A, e, L - e)
    lb = rng.randint(s0 + 2, e - 4)                                             # B launches while A waits
    host("cpu_op", "aten::conv2d", B, 0, lb + 4)
    host("cuda_runtime", "cudaLaunchKernel", B, lb, 2, cbid=211, correlation=21)
    ks = lb + rng.choice([1, 2, 3])
    dev(rng.choice(gen.K_COMP), 9, ks, e + delta - ks, 21, queued=0)
    first, rest = ev[0], ev[1:]
    rng.shuffle(rest)
    meta = {"schemaVersion": 1, "distributedInfo": {"backend": "nccl", "rank": 0, "world_size": 1},
            "deviceProperties": [{"id": 0, "name": "GPU", "numSms": 108}], "traceName": "rank0.json"}
    rt = gen.RankTrace(rank=0, events=[first] + rest, meta=meta, fmt="json.gz", ticks=1, base=base)
    return {"ranks": [rt.__dict__], "rank": 0, "incl": True, "zero": rng.random() < 0.4, "ann": "ProfilerStep", "inst": "none",
            "iseed": rng.randrange(1000), "prefix": [], "skew": delta}


def late_kernels(rng: random.Random, case: Dict[str, Any]) -> int:
    """A kernel that another thread launched WHILE a synchronising call was waiting ends 1-2 us after that call returns (the call did not
    wait for it).  Returns how many kernels were moved.  Stream order and every later synchronisation are kept consistent."""
    moved = 0
    for rk in case["ranks"]:
        evs = [e for e in rk["events"] if e.get("ph") == "X" and "dur" in e]
        syncs = [e for e in evs if e["pid"] != 0 and ("Synchronize" in e["name"])]
        launches = {e["args"]["correlation"]: e for e in evs if e["pid"] != 0 and "correlation" in e.get("args", {})}
        kernels = [e for e in evs if e["pid"] == 0 and e.get("cat") in ("kernel", "gpu_memcpy", "gpu_memset") and "correlation" in e.get("args", {})]
        for s_ in syncs:
            s0, s1 = s_["ts"], s_["ts"] + s_["dur"]
            for k in kernels:
                l = launches.get(k["args"]["correlation"])
                if l is None or l["tid"] == s_["tid"] or not (s0 < l["ts"] < s1) or k["ts"] > s1:
                    continue
                new_end = s1 + rng.choice((1, 2))
                if new_end <= k["ts"] + k["dur"]:
                    continue
                nxt = [o for o in kernels if o is not k and o["tid"] == k["tid"] and o["ts"] >= k["ts"] + k["dur"]]
                if any(o["ts"] < new_end for o in nxt):
                    continue
                if any(o is not s_ and o["ts"] >= l["ts"] and o["ts"] + o["dur"] < new_end for o in syncs):
                    continue        # a later synchronisation may have waited for it
                k["dur"] = new_end - k["ts"]
                moved += 1
                break
    return moved


def fractional_durations(rng: random.Random, case: Dict[str, Any], u: int = 4) -> None:
    """Whole-microsecond start times, durations in 1/u microseconds (what a profile with integer ts and float dur looks like: the loader
    rounds nothing in that case).  Only events without anything inside them are shortened, so nesting, stream order and causality stay."""
    for rk in case["ranks"]:
        evs = [e for e in rk["events"] if e.get("ph") == "X" and "dur" in e and e.get("cat") != "Trace"]
        for e in evs:
            if e["dur"] < 1 or rng.random() > 0.35 or e.get("cat") in ("user_annotation", "gpu_user_annotation", "cuda_sync") \
                    or "Synchronize" in e["name"] or "EventQuery" in e["name"] or "StreamWaitEvent" in e["name"]:
                continue        # a synchronising call must not return before the work it waits for
            lo, hi = e["ts"], e["ts"] + e["dur"]
            if any(o is not e and o["pid"] == e["pid"] and o["tid"] == e["tid"] and lo <= o["ts"] <= hi and lo <= o["ts"] + o["dur"] <= hi for o in evs):
                continue        # something lies inside (or touches the end): leave it whole
            e["dur"] = e["dur"] - rng.randrange(1, u) / u
    case["u"] = u


def observe_cp(case: Dict[str, Any], prop: str, whatif: bool = False, breakdown: bool = False) -> Dict[str, Any]:
    obs: Dict[str, Any] = {"prop": prop, "err": "", "success": False, "zero": bool(case["zero"]), "full": [], "rows": [], "nodes": [], "edges": [],
                           "p": {"path": [], "pedges": [], "pevents": []}, "rw": [], "bd": [], "summary": []}
    os.environ["CRITICAL_PATH_ADD_ZERO_WEIGHT_LAUNCH_EDGE"] = "1" if case["zero"] else "0"
    global U
    U = int(case.get("u", 1))
    with hta.CaseDir("cp") as d:
        ta = write_and_load(case, d, include_last=case["incl"])
        r, ann, inst = run_analysis(ta, case)
        st = ta.t.symbol_table.get_sym_table()
        obs["full"] = frame_rows_cp(ta.t.get_trace(r), st)
        obs["file"] = file_entries(case, r)
        obs["ann"], obs["inst"] = ann, str(inst)
        # the analysed window must contain at least one operator / runtime call of positive duration (otherwise there is nothing to analyse)
        df = ta.t.get_trace(r)
        if ann == "":
            lo, hi = min(x["ts"] for x in obs["full"]), max(x["ts"] + x["dur"] for x in obs["full"])
        else:
            anns = [x for x in obs["full"] if ann in x["name"]]          # frame order, as the analysis slices it
            a, b = (0, 0) if inst is None else (inst, inst) if isinstance(inst, int) else inst
            sl = anns[a:b + 1]
            lo, hi = min(x["ts"] for x in sl), max(x["ts"] + x["dur"] for x in sl)
        if not any(x["stream"] == -1 and x["pid"] != 0 and x["dur"] > 0 and lo <= x["ts"] <= hi and x["cat"] in ("cpu_op", "cuda_runtime", "cuda_driver")
                   for x in obs["full"]):
            return {"skip": True}
        try:
            res = ta.critical_path_analysis(rank=r, annotation=ann, instance_id=inst)
            if res is None:
                return {"skip": True}
            cp, ok = res
            obs["success"] = bool(ok)
            obs["rows"] = frame_rows_cp(cp.trace_df, st)
            obs.update(project_graph(cp))
            if ok:
                obs["p"] = project_path(cp)
        except Exception as ex:
            obs["err"] = hta.exc_str(ex)
            return obs
        obs["again"] = {"ok": False, "edges": [], "p": {"path": [], "pedges": [], "pevents": []}, "bd": [], "summary": []}
        if ok and breakdown:
            def read_breakdown(g):
                elist = list(g.critical_path_edges_set)
                bd = g.get_critical_path_breakdown()
                assert len(bd) == len(elist)
                rows = []
                for e, t in zip(elist, bd[["event_idx", "duration", "type", "bound_by"]].itertuples(index=False)):
                    ev = t[0]
                    rows.append({"u": int(e.begin), "v": int(e.end), "ev": -9 if ev != ev or ev is None else int(ev), "dur": _tk(t[1]),
                                 "type": TYPES[str(t[2])], "bound": str(t[3])})
                import contextlib, io
                with contextlib.redirect_stdout(io.StringIO()):
                    summ = g.summary()
                return rows, [{"bound": str(k), "pct": hta.scaled(v, 1000)} for k, v in summ.items()]
            try:
                obs["bd"], obs["summary"] = read_breakdown(cp)
            except Exception as ex:
                obs["err"] = "breakdown: " + hta.exc_str(ex)
            # call history on ONE graph object: breakdown read, then a what-if edit of the live graph (weight attribute and edge object replaced
            # together), critical_path() again, breakdown and summary read again -- they must describe the recomputed path
            rr2 = random.Random(case["iseed"] + 2)
            if not obs["err"] and rr2.random() < 0.6:
                try:
                    import dataclasses
                    on_path = {(int(e.begin), int(e.end)) for e in cp.critical_path_edges_set}
                    for u, v in list(cp.edges):
                        if rr2.random() < (0.5 if (int(u), int(v)) in on_path else 0.2):
                            w = cp.edges[u, v]["weight"]
                            nw = rr2.choice([0, w * 2, w + 3, max(0, w - 1), w // 2])
                            cp.edges[u, v]["weight"] = nw
                            cp.edges[u, v]["object"] = dataclasses.replace(cp.edges[u, v]["object"], weight=nw)
                    if cp.critical_path():
                        bd2, summ2 = read_breakdown(cp)
                        obs["again"] = {"ok": True, "edges": project_graph(cp)["edges"], "p": project_path(cp), "bd": bd2, "summary": summ2}
                except Exception as ex:
                    obs["err"] = "breakdown after recomputation: " + hta.exc_str(ex)
        if ok and whatif:
            rr = random.Random(case["iseed"] + 1)
            for trial in range(2):
                rec = {"ok": False, "edges": [], "after": [], "p": {"path": [], "pedges": [], "pevents": []}}
                try:
                    g = copy.deepcopy(cp)
                    for u, v in list(g.edges):
                        if rr.random() < 0.3:
                            w = g.edges[u, v]["weight"]
                            g.edges[u, v]["weight"] = rr.choice([0, w * 2, w + 3, max(0, w - 1), w // 2])      # all multiples of 1/U again
                    assigned = project_graph(g)["edges"]          # the weights the user assigned, read BEFORE recomputing
                    ok2 = g.critical_path()
                    rec["ok"] = bool(ok2)
                    rec["edges"] = assigned
                    rec["after"] = [[e["u"], e["v"], e["gw"]] for e in project_graph(g)["edges"]]
                    rec["p"] = project_path(g)
                except Exception as ex:
                    rec["err"] = hta.exc_str(ex)
                obs["rw"].append(rec)
            # call history: the first graph is read again AFTER other graphs (the what-if copies) were analysed in the same process
            obs["p2"] = project_path(cp)
    if "p2" not in obs:
        obs["p2"] = obs["p"]
    return obs


class _CP(Prop):
    trace_module = "Trace_CriticalPath"
    par = 16

    def gen_case(self, rng, k, tier):
        if k % 20 == 7:
            return skew_case(rng)
        case = gen_cp_case(rng, tier)
        if k % 20 == 13:
            # event records / waits in the trace and the frame state with every decoded string column (MC_Session state
            # {s_cat, s_name, s_user_annotation, user_annotation}) before the analysis
            cfg = cp_cfg(rng, tier)
            cfg.p_event_sync, cfg.p_sync, cfg.n_ranks = 0.3, 0.2, 1
            keep = {x: case[x] for x in ("incl", "zero", "ann", "inst", "iseed")}
            case = case_from_cfg(rng, cfg)
            case.update(keep)
            case["rank"] = 0
            case["prefix"] = ["user_annotations", "decode_names"]
        if k % 5 == 4 and all(r["ticks"] == 1 for r in case["ranks"]):
            fractional_durations(rng, case)
        return case

    def fingerprint(self, case, obs):
        import hashlib, json
        return hashlib.sha1(json.dumps([obs.get("rows"), obs.get("edges"), obs.get("ann"), obs.get("inst")], sort_keys=True).encode()).hexdigest()


class C08(_CP):
    id = "C08"
    mc = [{"module": "MC_CriticalPath", "quick": "MC_CriticalPath_quick.cfg", "thorough": "MC_CriticalPath.cfg", "actions": []}]
    n_cases = {"quick": 400, "thorough": 4000}
    rule = ("program-simulated causally consistent traces: 1-2 ranks, 0-3 profiler steps, 1-3 strictly serial streams, nested operators, blocking "
            "calls, stream / context / event synchronisation, optional autograd thread; annotation in {ProfilerStep, '', '## backward ##'} with "
            "instance None / k / (i,j) drawn among the instances present; zero-weight launch edges on/off; non-trivial iff the graph has a "
            "launch-delay edge, a kernel-kernel edge and (a sync edge or nested operators)")
    assumptions = ["WellFormed rows, strict per-stream FIFO and causal consistency (launch before kernel start; a stream/context synchronising call ends no "
                   "earlier than the kernels launched before it) are re-evaluated by TLC on the recorded frame",
                   "event-based synchronisation edges cannot appear in this environment (observation O2 in DESIGN.md), so their shape is only checked if present"]

    def observe(self, case):
        return observe_cp(case, "C08")

    # ---- spec -> code: every program of the small builder model through the real builder; the real graph must be one of the graphs
    # the model produces for that program (one per admissible tie order).  A mismatch is spec drift (machinery failure), not a violation.
    def extra(self, ctx):
        import json as _json
        from concurrent.futures import ProcessPoolExecutor
        from .. import tlc
        # exhaustive enumeration (all tie orders of every program), never simulation: the real builder picks ONE tie order and the
        # comparison needs the complete set of graphs the model allows for that program
        cfg = "MC_CriticalPath_emit.cfg" if ctx.tier == "quick" else "MC_CriticalPath_emit3.cfg"
        behs, _ = tlc.enumerate_cases("MC_CriticalPath", cfg, timeout=3000)
        admissible: Dict[str, List[Any]] = {}
        progs: Dict[str, Any] = {}
        for b in behs:
            key = _json.dumps(b["prog"], sort_keys=True)
            progs[key] = b["prog"]
            es = sorted([e["ue"], bool(e["us"]), e["ve"], bool(e["vs"]), e["w"], e["type"]] for e in b["edges"])
            admissible.setdefault(key, [])
            if es not in admissible[key]:
                admissible[key].append(es)
        keys = sorted(progs)
        rr = random.Random(ctx.seed)
        rr.shuffle(keys)
        keys = keys[: (400 if ctx.tier == "quick" else 3000)]
        cases = [program_to_case(progs[k], rr) for k in keys]
        with ProcessPoolExecutor(max_workers=16, initializer=hta.setup) as ex:
            results = list(ex.map(replay_program, cases, chunksize=8))
        drift = []
        for k, res in zip(keys, results):
            if res["err"] or [list(x) for x in res["edges"]] not in [[list(y) for y in a] for a in admissible[k]]:
                drift.append((progs[k], res, admissible[k]))
        ctx.replayed += len(keys)
        ctx.extra_cov["builder_model_programs_replayed"] = len(keys)
        ctx.extra_cov["builder_model_behaviours"] = len(behs)
        ctx.extra_cov["builder_model_drift"] = len(drift)
        if drift:
            # The code no longer builds the graphs the model builds.  That is not by itself a violation of C08 (the clauses are judged on the
            # real graphs above); it is reported so that the model gets updated, and any crash of the real analysis on a model program
            # (a causally consistent trace by construction) IS a violation of "the analysis succeeds".
            p0 = drift[0]
            print(f"SPEC-DRIFT C08: real builder and MC_CriticalPath disagree on {len(drift)} of {len(keys)} programs; first: "
                  f"prog={_json.dumps(p0[0])} real={_json.dumps(p0[1])[:400]} model={_json.dumps(p0[2][:1])[:400]}")
            ctx.notes.append(f"SPEC-DRIFT: {len(drift)} of {len(keys)} model programs built a different graph in the real code")
            for prog, res, _ in drift:
                if res["err"] or not res.get("ok", False):
                    case = program_to_case(prog, rr)
                    case["id"] = f"C08-model-{abs(hash(_json.dumps(prog))) % 10**8}"
                    ctx.fail(case["id"], "succeeds(model program)", {"case": case, "obs": res, "failing_clauses": ["succeeds"], "shape_tags": []})

    def nontrivial(self, case, obs):
        ty = {e["type"] for e in obs.get("edges", [])}
        nested = any(e["type"] == "op" and e["attr"] >= 0 for e in obs.get("edges", []))
        return "launch" in ty and "k2k" in ty and ("sync" in ty or nested)


def program_to_case(prog: List[Dict[str, Any]], rng: random.Random) -> Dict[str, Any]:
    """A program of MC_CriticalPath as a trace file whose event ids equal the model's (call i -> i, kernel -> NC+i, sync record -> 2NC+i);
    id 0 is a leading host operator, unused ids are metadata entries."""
    nc = len(prog)
    base, off = 1000, 2
    ph = {"ph": "M", "name": "process_name", "pid": 5, "tid": 0, "ts": base, "args": {"name": "python"}}
    ev: List[Dict[str, Any]] = [dict(ph) for _ in range(3 * nc + 1)]
    ev[0] = {"ph": "X", "cat": "cpu_op", "name": "aten::add", "pid": 5, "tid": 5, "ts": base, "dur": 1, "args": {}}
    names = {"launch": "cudaLaunchKernel", "ssync": "cudaStreamSynchronize", "dsync": "cudaDeviceSynchronize"}
    for i, c in enumerate(prog, start=1):
        ev[i] = {"ph": "X", "cat": "cuda_runtime", "name": names[c["kind"]], "pid": 5, "tid": 5, "ts": base + off + c["ts"], "dur": c["dur"],
                 "args": {"correlation": i, "cbid": 1}}
        if c["kind"] == "launch":
            ev[nc + i] = {"ph": "X", "cat": "kernel", "name": "ampere_sgemm_128x64_nn", "pid": 0, "tid": c["stream"], "ts": base + off + c["kts"],
                          "dur": c["kdur"], "args": {"stream": c["stream"], "correlation": i, "device": 0}}
        else:
            st = c["stream"] if c["kind"] == "ssync" else -1
            ev[2 * nc + i] = {"ph": "X", "cat": "cuda_sync", "name": "Stream Sync" if c["kind"] == "ssync" else "Context Sync", "pid": 0, "tid": st,
                              "ts": base + off + c["ts"], "dur": c["send"] - c["ts"], "args": {"stream": st, "correlation": i, "device": 0,
                              "wait_on_stream": -1, "wait_on_cuda_event_record_corr_id": -1}}
    meta = {"schemaVersion": 1, "distributedInfo": {"rank": 0}, "traceName": "prog.json"}
    rt = gen.RankTrace(rank=0, events=ev, meta=meta, fmt="json", ticks=1, base=base)
    return {"ranks": [rt.__dict__], "prog": prog}


def replay_program(case: Dict[str, Any]) -> Dict[str, Any]:
    """Run the real analysis on a model program; return its edges among the program's events in the model's vocabulary."""
    os.environ["CRITICAL_PATH_ADD_ZERO_WEIGHT_LAUNCH_EDGE"] = "0"
    nc = len(case["prog"])
    with hta.CaseDir("cpr") as d:
        ta = write_and_load(case, d, include_last=True)
        try:
            cp, ok = ta.critical_path_analysis(rank=0, annotation="", instance_id=None)
        except Exception as ex:
            return {"err": hta.exc_str(ex), "edges": []}
        g = project_graph(cp)
        out = []
        for e in g["edges"]:
            nu, nv = g["nodes"][e["u"]], g["nodes"][e["v"]]
            if 1 <= nu["ev"] <= 3 * nc and 1 <= nv["ev"] <= 3 * nc:
                out.append([nu["ev"], nu["start"], nv["ev"], nv["start"], e["w"], e["type"]])
        return {"err": "", "ok": bool(ok), "edges": sorted(out)}


class C09(_CP):
    id = "C09"
    mc = [{"module": "MC_LongestPath", "quick": "MC_LongestPath_quick.cfg", "thorough": "MC_LongestPath.cfg", "actions": ["Walk"]}]
    n_cases = {"quick": 300, "thorough": 2500}
    rule = ("the graphs of C08's generator; plus two what-if copies per graph: ~30% of the edge weights replaced (0, doubled, +3, -1, halved) and "
            "critical_path() recomputed; non-trivial iff the path crosses host and device or a what-if copy changed the path")
    assumptions = ["optimality is checked with the weights the path algorithm uses (the networkx 'weight' attribute)"]

    def observe(self, case):
        return observe_cp(case, "C09", whatif=True)

    def nontrivial(self, case, obs):
        if not obs.get("success"):
            return False
        byid = {x["id"]: x for x in obs["rows"]}
        evs = [byid[e] for e in obs["p"]["pevents"] if e in byid]
        cross = any(x["stream"] == -1 for x in evs) and any(x["stream"] != -1 for x in evs)
        changed = any(rw.get("ok") and rw["p"]["path"] != obs["p"]["path"] for rw in obs["rw"])
        return cross or changed


class C10(_CP):
    id = "C10"
    mc = [{"module": "MC_LongestPath", "quick": "MC_LongestPath_quick.cfg", "thorough": "MC_LongestPath.cfg", "actions": ["Walk"]}]
    n_cases = {"quick": 300, "thorough": 2500}
    rule = ("the graphs of C08's generator with get_critical_path_breakdown(), summary() and the attribution map recorded; non-trivial iff the path "
            "contains an End->Start span edge attributed to a parent operator or a kernel-kernel delay edge")
    assumptions = ["kernel names of the vocabulary decide the communication / compute class (CommNames in TraceModel.tla)"]

    def observe(self, case):
        return observe_cp(case, "C10", breakdown=True)

    def nontrivial(self, case, obs):
        if not obs.get("success"):
            return False
        nodes = obs["nodes"]
        for b in obs["bd"]:
            if b["type"] == "k2k":
                return True
            if b["type"] == "op" and not nodes[b["u"]]["start"] and nodes[b["v"]]["start"]:
                return True
        return False
