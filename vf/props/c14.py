from .counters import C14

PROP = C14()
