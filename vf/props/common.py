"""Shared helpers of the property modules."""
from __future__ import annotations

import random
from typing import Any, Dict, List

from .. import gen, hta


def write_and_load(case: Dict[str, Any], d: str, include_last: bool = False, **kw):
    """Write the case's rank files into d and load them through the public entry point."""
    from hta.trace_analysis import TraceAnalysis
    ranks = [gen.RankTrace(**r) for r in case["ranks"]]
    gen.write_trace_set(ranks, d)
    return TraceAnalysis(trace_dir=d, include_last_profiler_step=include_last, **kw)


def case_from_cfg(rng: random.Random, cfg: gen.GenCfg) -> Dict[str, Any]:
    ranks = gen.gen_trace_set(rng, cfg)
    return {"ranks": [r.__dict__ for r in ranks]}


def frame_rows(ta, rank: int, cols=("ts", "dur", "stream")) -> List[Dict[str, Any]]:
    """Rows of the loaded frame of `rank`, as the analyzers see them, names decoded through the real symbol table."""
    df = ta.t.get_trace(rank)
    st = ta.t.symbol_table.get_sym_table()
    out = []
    for idx, row in zip(df.index.tolist(), df[list(cols) + ["name", "cat"]].itertuples(index=False)):
        d = {"id": int(idx)}
        for c, v in zip(cols, row):
            d[c] = hta.ival(v)
        d["name"] = st[int(row[len(cols)])]
        d["cat"] = st[int(row[len(cols) + 1])]
        out.append(d)
    return out
