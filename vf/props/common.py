"""Shared helpers of the property modules."""
from __future__ import annotations

import random
from typing import Any, Dict, List

from .. import gen, hta


def write_and_load(case: Dict[str, Any], d: str, include_last: bool = False, **kw):
    """Write the case's rank files into d and load them through the public entry point."""
    from hta.trace_analysis import TraceAnalysis
    ranks = [gen.RankTrace(**r) for r in case["ranks"]]
    gen.write_trace_set(ranks, d)
    ta = TraceAnalysis(trace_dir=d, include_last_profiler_step=include_last, **kw)
    if case.get("prefix"):
        # a behaviour of spec/Session.tla: public calls made on the object before the call under test (results and errors ignored)
        from .. import session
        session.apply(ta, case["prefix"], d)
    return ta


PREFIX_OPS = ["temporal_breakdown", "comm_comp_overlap", "kernel_breakdown", "idle_breakdown", "queue_length", "memory_bw", "launch_stats_mem",
              "launch_stats_nomem", "with_counters", "decode_names", "call_graph", "kernel_sequences", "user_annotations", "critical_path"]


_STATES: List[Dict[str, Any]] = []


def draw_prefix(rng: random.Random, p: float = 0.4) -> List[str]:
    """With probability p a history of 1-3 earlier calls on the same TraceAnalysis object (never the re-parsing one, finding S1).
    Half of these are drawn per *state*: a shortest history to a uniformly chosen frame state of the Session model
    (vf/session_states.json, generated from MC_Session), so that every property meets every state of the shared frames."""
    if rng.random() >= p:
        return []
    if rng.random() < 0.5:
        if not _STATES:
            import json, os
            _STATES.extend(json.load(open(os.path.join(os.path.dirname(os.path.dirname(os.path.abspath(__file__))), "session_states.json"))))
        st = rng.choice([x for x in _STATES if x["cols"]])
        return list(rng.choice(st["histories"]))
    return [rng.choice(PREFIX_OPS) for _ in range(rng.randint(1, 3))]


def case_from_cfg(rng: random.Random, cfg: gen.GenCfg) -> Dict[str, Any]:
    ranks = gen.gen_trace_set(rng, cfg)
    return {"ranks": [r.__dict__ for r in ranks]}


def frame_rows(ta, rank: int, cols=("ts", "dur", "stream"), u: int = 1) -> List[Dict[str, Any]]:
    """Rows of the loaded frame of `rank`, as the analyzers see them, names decoded through the real symbol table.  Times in ticks of
    1/u microsecond (u > 1 for cases with fractional durations)."""
    df = ta.t.get_trace(rank)
    st = ta.t.symbol_table.get_sym_table()
    out = []
    for idx, row in zip(df.index.tolist(), df[list(cols) + ["name", "cat"]].itertuples(index=False)):
        d = {"id": int(idx)}
        for c, v in zip(cols, row):
            d[c] = hta.ival(float(v) * u) if c in ("ts", "dur") else hta.ival(v)
        d["name"] = st[int(row[len(cols)])]
        d["cat"] = st[int(row[len(cols) + 1])]
        out.append(d)
    return out


def file_entries(case: Dict[str, Any], rank: int) -> List[Dict[str, Any]]:
    """[id, name, cat] of the complete entries of the rank's input file (id = position in traceEvents): what every loaded row must decode to.
    Recorded so that TLC can tell a wrong loader (rows that no longer say what the file said: a violation) from an input outside the
    property's domain (a generator bug)."""
    rt = next(r for r in case["ranks"] if r["rank"] == rank)
    u = int(case.get("u", 1))
    out = []
    for i, e in enumerate(rt["events"]):
        if hta.is_complete(e):
            a = e.get("args") or {}
            st = hta._int_stream(a.get("stream", -1))
            out.append({"id": i, "name": e["name"], "cat": e["cat"], "stream": -1 if st >= 2 ** 31 else st, "corr": int(a.get("correlation", -1)),
                        "dur": hta.ival(float(e["dur"]) * u)})       # ticks; these generators write whole-microsecond start times, so the
                                                                       # loader rounds nothing and durations arrive unchanged
    return out
