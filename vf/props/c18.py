"""C18 - trace filters are pure row selections with the documented predicates."""
from __future__ import annotations

import hashlib
import random
from typing import Any, Dict, List

from .. import gen, hta
from ..core import Prop
from .common import case_from_cfg, write_and_load

PATTERNS = ["aten::", "aten::m", "cuda", "cudaLaunch", "nccl", "Memcpy", "ProfilerStep#", "void ", ".*Kernel", "Memcpy (HtoD|DtoH)", "Stream",
            ".*Sync$", "nomatch",
            # patterns that are themselves symbols: a prefix of another symbol, and one whose characters mean something in a regular expression
            "cudaLaunchKernel", "Memcpy DtoD (Device -> Device)"]


def _mk_filter(spec: Dict[str, Any], st):
    from hta.common import trace_filter as tf
    k = spec["k"]
    if k == "iter":
        return tf.IterationFilter(spec["its"][0] if spec.get("scalar") else list(spec["its"]))
    if k == "iteridx":
        return tf.FirstIterationFilter() if spec.get("first") else tf.IterationIndexFilter(list(spec["idx"]))
    if k == "rank":
        return tf.RankFilter(spec["ranks"][0] if spec.get("scalar") else list(spec["ranks"]))
    if k == "time":
        u = spec.get("u", 1)          # ticks per microsecond of the recorded bounds (the frame itself is in microseconds)
        return tf.TimeRangeFilter((spec["a"] // u, spec["b"] // u))      # the filter takes whole microseconds: recorded bounds are multiples of u
    if k == "name":
        return tf.NameFilter(spec["pat"], symbol_table=st if spec.get("ctor_st") else None)
    if k == "gpu":
        return tf.GPUKernelFilter()
    if k == "cpu":
        return tf.CPUOperatorFilter()
    if k == "memcpy":
        return tf.MemCopyEventFilter(spec["type"], symbol_table=st if spec.get("ctor_st") else None)
    raise ValueError(k)


def _rows(df, st, with_all=True, u=1) -> List[Dict[str, Any]]:
    """uid + content hash over every column (+ the abstract fields when with_all)."""
    out = []
    if df is None or len(df.columns) == 0:
        return out
    cols = list(df.columns)
    for tup in df.itertuples(index=True):
        h = hashlib.sha1(repr((tup[0],) + tuple(str(x) for x in tup[1:])).encode()).hexdigest()[:16]
        d = dict(zip(cols, tup[1:]))
        row = {"uid": int(d["uid"]), "h": h}
        if with_all:
            name = d["name"] if isinstance(d["name"], str) else st[int(d["name"])]
            cat = d["cat"] if isinstance(d["cat"], str) else st[int(d["cat"])]
            row.update({"ts": hta.ival(d["ts"] * u), "dur": hta.ival(d["dur"] * u), "stream": hta.ival(d["stream"]), "corr": hta.ival(d["correlation"]),
                        "name": name, "cat": cat, "iter": hta.ival(d["iteration"]), "rank": hta.ival(d["rank"])})
        out.append(row)
    return out


class C18(Prop):
    id = "C18"
    trace_module = "Trace_Filters"
    mc = [{"module": "MC_Filters", "quick": "MC_Filters.cfg", "thorough": "MC_Filters_thorough.cfg", "actions": ["ApplyOne"]}]
    n_cases = {"quick": 150, "thorough": 2000}
    rule = ("frames = loaded multi-rank traces concatenated with a rank column, in three representations (encoded names + symbol table passed, "
            "decoded names without symbol table, encoded names with the symbol table given to the NameFilter constructor); per frame 8 applications: "
            "single filters, f twice, f then g and g then f, composites of 2-3 members (as CompositeFilter or nested calls) with parameters drawn "
            "from the frame (iterations present/absent, index positions in and out of range, ranks, time ranges at event boundaries, 13 patterns, "
            "memcpy types); non-trivial iff an application has >= 2 members incl. a position-based iteration filter")
    assumptions = ["row contents are compared through a hash over all columns computed by the harness; the pattern x name table NameTable.tla was "
                   "generated once with Python's re.match and is committed",
                   "frames always carry the iteration and rank columns (the behaviour for missing columns is not part of the statement)",
                   "MemCopyEventFilter is exercised only where a symbol table is available (it compares symbol ids; on decoded frames without a table it documents an empty result)"]

    def gen_case(self, rng, k, tier):
        cfg = gen.GenCfg(n_ranks=rng.choice([1, 2, 3]), n_steps=rng.choice([0, 1, 2, 3]), first_step_no=rng.choice([0, 5, 9]),
                         p_launch=0.5, p_mem=0.4, p_comm=0.3, p_sync=rng.choice([0, 0.15]), p_event_sync=rng.choice([0, 0.1]),
                         streams=rng.choice([(7,), (7, 9)]), max_children=2, max_depth=2, ops_per_step=(1, 2), pre_ops=1, post_ops=1,
                         base=rng.choice([0, 1000]), extras=rng.random() < 0.5)
        case = case_from_cfg(rng, cfg)
        # encoded_both: the filter object was built with ANOTHER trace's symbol table (same names, other ids); the table passed along with
        # the frame is the frame's and decides what a name id means
        # decoded_name: only the name column holds strings (what add_symbols_to_trace_df(df, "name") leaves), the category is still an id
        case["rep"] = rng.choice(["encoded_st", "decoded", "encoded_ctor", "encoded_both", "decoded_name"])
        case["no_end"] = rng.random() < 0.3         # a column subset without the derived `end` column
        case["fseed"] = rng.randrange(10 ** 6)
        case["incl"] = rng.random() < 0.5
        case["dup_labels"] = rng.random() < 0.4     # multi-rank frame concatenated WITHOUT renumbering: row labels repeat across ranks
        case["quarter"] = rng.random() < 0.25       # float-typed times, durations with quarter-microsecond fractions (recorded in ticks of 1/4 us)
        case["share"] = rng.random() < 0.5          # [f, f] / [g, g] apply the SAME filter object twice instead of two equal objects
        return case

    def _specs(self, rng, frame, allow_memcpy=True, u=1) -> List[Dict[str, Any]]:
        iters = sorted({x["iter"] for x in frame})
        ranks = sorted({x["rank"] for x in frame})
        times = sorted({x["ts"] for x in frame} | {x["ts"] + x["dur"] for x in frame}) or [0]
        if u != 1:      # window bounds are whole microseconds: the microsecond at or just below / above each event boundary
            times = sorted({(t // u) * u for t in times} | {-(-t // u) * u for t in times})
        kinds = ["iter", "iteridx", "rank", "time", "name", "gpu", "cpu", "memcpy", "name", "iteridx"]
        if not allow_memcpy:
            kinds.remove("memcpy")      # MemCopyEventFilter compares symbol ids: it needs a symbol table

        def one():
            k = rng.choice(kinds)
            if k == "iter":
                its = rng.sample(iters + [99], rng.randint(1, min(3, len(iters) + 1)))
                return {"k": k, "its": sorted(its), "scalar": len(its) == 1 and rng.random() < 0.5}
            if k == "iteridx":
                if rng.random() < 0.3:
                    return {"k": k, "idx": [0], "first": True}
                return {"k": k, "idx": sorted(rng.sample(range(0, 4), rng.randint(1, 2)))}
            if k == "rank":
                rs = rng.sample(ranks + [7], rng.randint(1, min(2, len(ranks) + 1)))
                return {"k": k, "ranks": sorted(rs), "scalar": len(rs) == 1 and rng.random() < 0.5}
            if k == "time":
                a, b = sorted([rng.choice(times), rng.choice(times)])
                return {"k": k, "a": int(a), "b": int(b)}
            if k == "name":
                return {"k": k, "pat": rng.choice(PATTERNS)}
            if k == "memcpy":
                return {"k": k, "type": rng.choice(gen.K_MEMCPY)}
            return {"k": k}
        f, g, h = one(), one(), one()
        apps = [[f], [g], [f, f], [f, g], [g, f], [f, g, h], [h, f], [g, g]]
        return [{"fs": fs, "mode": rng.choice(["composite", "nested"])} for fs in apps]

    def observe(self, case):
        import pandas as pd
        from hta.common.trace_filter import CompositeFilter
        obs: Dict[str, Any] = {"prop": "C18", "err": "", "hasST": case["rep"] in ("encoded_st", "encoded_both"), "frame": [], "after": [], "apps": [], "frame2": [], "apps2": []}
        with hta.CaseDir("c18") as d:
            ta = write_and_load(case, d, include_last=case["incl"])
            st_obj = ta.t.symbol_table
            st = st_obj.get_sym_table()
            if case["rep"] in ("decoded", "decoded_name"):
                ta.t.decode_symbol_ids(use_shorten_name=False)
            parts = []
            for r in sorted(ta.t.traces):
                p = ta.t.get_trace(r).copy()
                p["rank"] = r
                p["uid"] = r * 100000 + p["index"].astype("int64")
                if case["rep"] == "decoded":
                    p["name"] = p["s_name"]
                    p["cat"] = p["s_cat"]
                elif case["rep"] == "decoded_name":
                    p["name"] = p["s_name"]
                    p = p.drop(columns=["s_name", "s_cat"])
                parts.append(p)
            df = pd.concat(parts, ignore_index=not case.get("dup_labels", False))
            if case.get("no_end") and "end" in df.columns:
                df = df.drop(columns=["end"])
            U = 4 if case.get("quarter") else 1
            if U != 1:
                rq = random.Random(case["fseed"] + 1)
                df["ts"] = df["ts"].astype("float64")
                df["dur"] = df["dur"].astype("float64") + [rq.choice([0.0, 0.25, 0.5, 0.75]) for _ in range(len(df))]
                if "end" in df.columns:
                    df["end"] = df["ts"] + df["dur"]
            obs["frame"] = _rows(df, st, u=U)
            if not obs["frame"]:
                return {"skip": True}
            rng = random.Random(case["fseed"])
            pass_st = st_obj if case["rep"] in ("encoded_st", "encoded_both") else None
            other_st = None
            if case["rep"] == "encoded_both":
                from hta.common.trace_symbol_table import TraceSymbolTable
                other_st = TraceSymbolTable()
                other_st.add_symbols(list(reversed(st)))

            def run(objs, mode, frame_df):
                if mode == "composite":
                    return CompositeFilter(objs)(frame_df, pass_st)
                res = frame_df
                for o in objs:
                    res = o(res, pass_st)
                return res

            kept = []
            for app in self._specs(rng, obs["frame"], allow_memcpy=case["rep"] not in ("decoded", "decoded_name"), u=U):
                rec = {"fs": [{k: v for k, v in f.items()} for f in app["fs"]], "out": [], "err": "", "mode": app["mode"]}
                objs = None
                try:
                    for f in rec["fs"]:
                        f["ctor_st"] = case["rep"] in ("encoded_ctor", "encoded_both")
                        f["u"] = U
                    made: Dict[int, Any] = {}
                    objs = []
                    for f0, f in zip(app["fs"], rec["fs"]):
                        if case.get("share") and id(f0) in made:
                            objs.append(made[id(f0)])           # the same object a second time
                        else:
                            made[id(f0)] = _mk_filter(f, other_st if other_st is not None else st_obj)
                            objs.append(made[id(f0)])
                    rec["out"] = _rows(run(objs, app["mode"], df), st, with_all=False)
                except Exception as ex:
                    rec["err"] = hta.exc_str(ex)
                obs["apps"].append(rec)
                kept.append((rec, objs, app["mode"]))
            obs["after"] = _rows(df, st, with_all=False)
            # history: the (append-only) symbol table grows, new rows use the new symbols, and the SAME filter objects are applied again
            new_names = ["aten::new_op", "cudaNewCall", "ncclNewKernel_AllReduce", "Memcpy DtoD (New -> New)", "void new_kernel<int>(int)", "Stream New"]
            st_obj.add_symbols(new_names)
            st2 = st_obj.get_sym_table()
            extra = df.iloc[: min(len(df), len(new_names))].copy()
            for k in range(len(extra)):
                nm = new_names[k]
                extra.iloc[k, extra.columns.get_loc("name")] = nm if case["rep"] in ("decoded", "decoded_name") else st_obj.get_sym_id_map()[nm]
                if "s_name" in extra.columns:
                    extra.iloc[k, extra.columns.get_loc("s_name")] = nm
            extra["uid"] = extra["uid"] + 50000
            df2 = pd.concat([df, extra], ignore_index=not case.get("dup_labels", False))
            obs["frame2"] = _rows(df2, st2, u=U)
            obs["apps2"] = []
            for rec, objs, mode in kept:
                rec2 = {"fs": rec["fs"], "out": [], "err": "", "mode": mode}
                if objs is None:
                    continue
                try:
                    rec2["out"] = _rows(run(objs, mode, df2), st2, with_all=False)
                except Exception as ex:
                    rec2["err"] = hta.exc_str(ex)
                obs["apps2"].append(rec2)
        return obs

    def nontrivial(self, case, obs):
        return any(len(a["fs"]) >= 2 and any(f["k"] == "iteridx" for f in a["fs"]) for a in obs["apps"])


PROP = C18()
