from .counters import C15

PROP = C15()
