"""C12 - iteration numbers follow profiler steps; loading trims only the trailing step."""
from ..core import Prop
from .load import gen_load_case, observe_load


class C12(Prop):
    id = "C12"
    trace_module = "Trace_Load"
    mc = [{"module": "MC_Load", "quick": "MC_Load_quick.cfg", "thorough": "MC_Load.cfg", "actions": ["Align", "Trim", "Index"]}]
    n_cases = {"quick": 300, "thorough": 5000}
    rule = ("seeded generator: 0-3 profiler steps (numbers from 0, 3 or 15), gaps between steps, operators before the first / between / after the "
            "last step, events starting exactly at step boundaries (clock advances of 0), include_last_profiler_step on/off, 1-4 ranks; "
            "non-trivial iff >= 2 steps and some event starts at a step boundary or after the last step")
    assumptions = ["WellFormed and: every rank has the same step numbers, step spans are disjoint and positive (re-evaluated by TLC)",
                   "the iteration number of Event Sync / Context Sync records (stream -1, device side for linking, host side for numbering) is not asserted"]

    def gen_case(self, rng, k, tier):
        return gen_load_case(rng, tier, "C12", k)

    def observe(self, case):
        return observe_load(case, "C12")

    def nontrivial(self, case, obs):
        for fr in obs.get("parsed", []):
            steps = [x for x in fr["rows"] if x["name"].startswith("ProfilerStep")]
            if len(steps) < 2:
                continue
            bounds = {s["ts"] for s in steps} | {s["end"] for s in steps}
            last = max(s["end"] for s in steps)
            if any((x["ts"] in bounds or x["ts"] >= last) for x in fr["rows"] if not x["name"].startswith("ProfilerStep")):
                return True
        return False


PROP = C12()
