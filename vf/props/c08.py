from .cp import C08

PROP = C08()
