"""C20 - trace files written by the tool preserve every source event."""
from __future__ import annotations

import copy
import gzip
import hashlib
import json
import os
import random
import shutil
from typing import Any, Dict, List, Tuple

from .. import gen, hta
from ..core import Prop
from .common import write_and_load
from .cp import gen_cp_case, run_analysis


def read_any(path: str) -> Dict[str, Any]:
    raw = open(path, "rb").read()
    return json.loads(gzip.decompress(raw) if raw[:2] == b"\x1f\x8b" else raw)


class Interner:
    def __init__(self):
        self.ids: Dict[str, int] = {}

    def __call__(self, ev: Dict[str, Any]) -> int:
        k = json.dumps(ev, sort_keys=True)
        return self.ids.setdefault(k, len(self.ids) + 1)


def _strip_crit(ev: Dict[str, Any]) -> Tuple[Dict[str, Any], bool]:
    if isinstance(ev.get("args"), dict) and ev["args"].get("critical", 0) == 1 and ev.get("name") != "critical_path":
        e2 = copy.deepcopy(ev)
        del e2["args"]["critical"]
        return e2, True
    return ev, False


def _pt(v: Any) -> int:
    return v if isinstance(v, int) else -99


class C20(Prop):
    id = "C20"
    trace_module = "Trace_Files"
    mc = [{"module": "MC_TraceFiles", "quick": "MC_TraceFiles.cfg", "thorough": "MC_TraceFiles.cfg", "actions": ["RoundTrip"]}]
    n_cases = {"quick": 120, "thorough": 1500}
    rule = ("even cases: a generated trace (.json or .json.gz, metadata / flow / instant / Trace-span entries interleaved) through "
            "generate_trace_with_counters and through overlay_critical_path_analysis with all four (only_show_critical_events, show_all_edges) "
            "combinations; odd cases: write_trace -> read_trace round trips in both formats, update_trace_rank with ranks in 0..1000, and "
            "create_rank_to_trace_dict over 1-4 files; non-trivial iff the source has non-'X' entries and an overlay draws a non-critical edge")
    assumptions = ["entries are compared after JSON canonicalisation (sorted keys) and interning by the harness; written files are opened by "
                   "magic bytes because the tool writes gzip data under a .json name when the source is .json (observation O1)",
                   "the critical marker args.critical = 1 is split off by the harness before interning"]

    def gen_case(self, rng, k, tier):
        if k % 10 == 4:
            # several ranks in one call, one of them without any device activity (a host-only rank has no counter series)
            cfg = gen.GenCfg(n_ranks=rng.choice([2, 3]), n_steps=rng.choice([0, 1]), p_launch=0.7, p_mem=0.4, max_children=2, max_depth=2,
                             base=rng.choice([0, 1000]), fmt=rng.choice(["json", "json.gz"]))
            cfg.per_rank = {rng.randrange(cfg.n_ranks - 1): {"p_launch": 0.0, "unlinked_head": 0}}
            from .common import case_from_cfg
            case = case_from_cfg(rng, cfg)
            case["kind"] = "wcmulti"
            case["order"] = rng.choice(["asc", "desc", "default"])
            return case
        if k % 2 == 0:
            case = gen_cp_case(rng, tier)
            case["n_ranks_forced"] = 1
            case["kind"] = "overlay"
            case["rerun"] = rng.random() < 0.4
            if rng.random() < 0.4:
                # events whose "args" object is empty (nothing but the mandatory fields): still events the overlay has to mark
                for rk in case["ranks"]:
                    for e in rk["events"][1:]:
                        if e.get("cat") == "cpu_op" and e.get("ph") == "X" and rng.random() < 0.4:
                            e["args"] = {}
            if rng.random() < 0.5:
                # a profile taken with with_stack=True: python_function entries (frames of the interpreter) around top-level operators,
                # anywhere in the file
                for rk in case["ranks"]:
                    ops = [e for e in rk["events"] if e.get("cat") == "cpu_op" and e.get("ph") == "X" and e.get("dur", 0) > 0]
                    for e in rng.sample(ops, min(len(ops), rng.randint(1, 4))):
                        py = {"ph": "X", "cat": "python_function", "name": rng.choice(["torch/nn/modules/module.py(1501): _call_impl",
                              "train.py(42): step", "<built-in method run_backward>"]), "pid": e["pid"], "tid": e["tid"], "ts": e["ts"], "dur": e["dur"],
                              "args": {"Python id": rng.randrange(1, 50), "Python parent id": None}}
                        rk["events"].insert(rng.randrange(0, len(rk["events"]) + 1), py)
            return case
        cfg = gen.GenCfg(n_ranks=rng.choice([1, 2, 3, 4]), n_steps=rng.choice([0, 1]), max_children=2, max_depth=2,
                         fmt="json", base=rng.choice([0, 1000]), pad_entries=rng.choice([0, 0, 1500]))     # 1500 entries: > 100 KiB of text
        ranks = gen.gen_trace_set(rng, cfg)
        recs = []
        used = rng.sample(range(0, 1001), len(ranks))
        for r, rk in zip(ranks, used):
            r.fmt = rng.choice(["json", "json.gz"])
            r.rank = rk
            r.meta["distributedInfo"]["rank"] = rk
            recs.append(r.__dict__)
        if rng.random() < 0.4:
            # events that carry an integer "rank" argument of their own (collective operators do)
            for r in recs:
                for e in r["events"]:
                    if e.get("cat") == "cpu_op" and rng.random() < 0.3:
                        e.setdefault("args", {})["rank"] = rng.randrange(0, 64)
        nometa = rng.random() < 0.4          # recorded without distributedInfo: the rank is added by update_trace_rank only
        if nometa:
            for r in recs:
                r["meta"].pop("distributedInfo", None)
        case = {"kind": "files", "ranks": recs, "newranks": rng.sample(range(0, 1001), len(ranks)), "nometa": nometa}
        if nometa and k % 10 == 9:
            # the rewritten file is padded so that the digits of its rank straddle a 2^20-character boundary (and with it every smaller
            # power-of-two boundary): whoever reads the file in blocks must not cut the number
            case["align"] = True
            case["newranks"][0] = rng.choice([x for x in range(10, 1001) if x not in case["newranks"][1:]])     # >= 2 digits, still distinct
        return case

    def observe(self, case):
        if case["kind"] == "wcmulti":
            return self._wcmulti(case)
        return self._overlay(case) if case["kind"] == "overlay" else self._files(case)

    # ---- counters written for several ranks in one call
    def _wcmulti(self, case):
        obs: Dict[str, Any] = {"prop": "C20", "kind": "wcmulti", "err": "", "files": []}
        with hta.CaseDir("c20m") as d:
            ta = write_and_load(case, d, include_last=True)
            ranks = sorted(ta.t.traces)
            req = None if case["order"] == "default" else ranks if case["order"] == "asc" else ranks[::-1]
            intern = Interner()
            try:
                ta.generate_trace_with_counters(ranks=req)
                for r in (ranks if req is not None else ranks[:1]):
                    src_path = ta.t.trace_files[r]
                    src = [{"e": intern(e), "ph": str(e.get("ph", ""))} for e in read_any(src_path)["traceEvents"]]
                    wc_path = src_path.replace(".json", "_with_counters.json")
                    has = os.path.exists(wc_path)
                    wc = [{"e": intern(e), "ph": str(e.get("ph", ""))} for e in read_any(wc_path)["traceEvents"]] if has else []
                    obs["files"].append({"rank": r, "src": src, "hasWc": has, "wc": wc, "wcPath": wc_path, "disc": -1})
                # history: rank discovery over the files the tool has just written -- each must still be found under its own rank
                from hta.common.trace_file import create_rank_to_trace_dict
                written = [f["wcPath"] for f in obs["files"] if f["hasWc"]]
                if written:
                    _ok, got = create_rank_to_trace_dict(list(written))
                    for f in obs["files"]:
                        f["disc"] = next((int(k_) for k_, v_ in got.items() if v_ == f["wcPath"]), -1)
                for f in obs["files"]:
                    f["wcPath"] = ""
            except Exception as ex:
                obs["err"] = hta.exc_str(ex)
        return obs

    # ---- with counters + overlay
    def _overlay(self, case):
        obs: Dict[str, Any] = {"prop": "C20", "kind": "overlay", "err": "", "src": [], "wc": [], "hasWc": False, "ov": [], "critRows": []}
        os.environ["CRITICAL_PATH_ADD_ZERO_WEIGHT_LAUNCH_EDGE"] = "1" if case["zero"] else "0"
        with hta.CaseDir("c20") as d:
            ta = write_and_load(case, d, include_last=case["incl"])
            r, ann, inst = run_analysis(ta, case)
            src_path = ta.t.trace_files[r]
            src = read_any(src_path)["traceEvents"]
            intern = Interner()
            obs["src"] = [{"e": intern(e), "pid": _pt(e.get("pid")), "tid": _pt(e.get("tid")), "ph": str(e.get("ph", "")), "name": str(e.get("name", "")),
                           "keep": e.get("cat", "") in ("user_annotation", "python_function")} for e in src]
            try:
                ta.generate_trace_with_counters(ranks=[r])
                wc_path = src_path.replace(".json", "_with_counters.json")
                if os.path.exists(wc_path):
                    obs["hasWc"] = True
                    obs["wc"] = [{"e": intern(e), "ph": str(e.get("ph", ""))} for e in read_any(wc_path)["traceEvents"]]
                try:
                    res = ta.critical_path_analysis(rank=r, annotation=ann, instance_id=inst)
                except Exception:
                    return {"skip": True}        # whether the analysis succeeds is C08's business
                if res is None or not res[1]:
                    return {"skip": True}
                cp = res[0]
                if case.get("rerun"):
                    # what-if on the same graph object before the overlay: some weights set to 0, the path recomputed (the overlay must mark the
                    # events of the path the graph reports NOW)
                    rr = random.Random(case["iseed"] + 5)
                    for a_, b_ in list(cp.edges):
                        if rr.random() < 0.3:
                            cp.edges[a_, b_]["weight"] = 0
                    if not cp.critical_path():
                        return {"skip": True}
                # identity of the critical events: what the analysed frame says the event with that id is (its decoded name)
                st = ta.t.symbol_table.get_sym_table()
                names = cp.trace_df["name"]
                obs["critRows"] = [{"id": int(i), "name": st[int(names.loc[i])]} for i in sorted({int(cp.node_list[n].ev_idx) for n in cp.critical_path_nodes})]
                # the documented option CRITICAL_PATH_SHOW_ZERO_WEIGHT_LAUNCH_EDGE may be changed between two overlays of one process
                SHOW = "CRITICAL_PATH_SHOW_ZERO_WEIGHT_LAUNCH_EDGE"
                for only, alle, show in ((False, False, None), (False, True, None), (False, True, "1"), (False, True, "0"),
                                         (True, False, None), (True, True, None)):
                    if True:
                        if show is None:
                            os.environ.pop(SHOW, None)
                        else:
                            os.environ[SHOW] = show
                        outdir = os.path.join(d, f"ov_{int(only)}{int(alle)}{show or ''}")
                        path = ta.overlay_critical_path_analysis(r, cp, output_dir=outdir, only_show_critical_events=only, show_all_edges=alle)
                        ev = read_any(path)["traceEvents"]
                        nfl = 0
                        while nfl < len(ev) and ev[len(ev) - 1 - nfl].get("name") == "critical_path" and ev[len(ev) - 1 - nfl].get("ph") in ("s", "f"):
                            nfl += 1
                        main, flows = ev[:len(ev) - nfl], ev[len(ev) - nfl:]
                        out = []
                        for e in main:
                            e2, crit = _strip_crit(e)
                            out.append({"e": intern(e2), "crit": crit, "ph": str(e.get("ph", "")),
                                        "keep": e.get("cat", "") in ("user_annotation", "python_function")})
                        if alle and not only:
                            es = [data["object"] for _, _, data in cp.edges(data=True)]
                            if show != "1":
                                es = [e for e in es if not (e.type.value == "critical_path_kernel_launch_delay" and e.weight == 0)]
                        else:
                            es = list(cp.critical_path_edges_set)
                        edges = []
                        for e in es:
                            a, b = cp.get_events_for_edge(e)
                            edges.append({"pu": _pt(src[a].get("pid")), "tu": _pt(src[a].get("tid")), "pv": _pt(src[b].get("pid")), "tv": _pt(src[b].get("tid"))})
                        obs["ov"].append({"only": only, "all": alle, "out": out,
                                          "flows": [{"id": int(f["id"]), "ph": f["ph"], "pid": _pt(f.get("pid")), "tid": _pt(f.get("tid"))} for f in flows],
                                          "edges": edges,
                                          # the critical path's events, read off the path itself (C09 binds the reported set to it)
                                          "critical": sorted({int(cp.node_list[n].ev_idx) for n in cp.critical_path_nodes})})
            except Exception as ex:
                obs["err"] = hta.exc_str(ex)
            finally:
                os.environ.pop("CRITICAL_PATH_SHOW_ZERO_WEIGHT_LAUNCH_EDGE", None)
        return obs

    # ---- trace-file reader / writer / rank handling
    def _files(self, case):
        from hta.common.trace_file import create_rank_to_trace_dict, read_trace, update_trace_rank, write_trace
        obs: Dict[str, Any] = {"prop": "C20", "kind": "files", "err": "", "rt": [], "ru": [], "disc": {"ok": False, "got": [], "want": []},
                               "disc2": {"ok": False, "got": [], "want": []}}
        dig = lambda x: hashlib.sha1(json.dumps(x, sort_keys=True).encode()).hexdigest()[:20]
        with hta.CaseDir("c20f") as d:
            ranks = [gen.RankTrace(**r) for r in case["ranks"]]
            paths = []
            for k, rt in enumerate(ranks):
                p = os.path.join(d, f"trace_{k}." + rt.fmt)
                gen.write_trace_set([rt], os.path.join(d, f"tmp{k}"))
                shutil.move(os.path.join(d, f"tmp{k}", f"rank{rt.rank}." + rt.fmt), p)
                paths.append(p)
            try:
                ok, got = create_rank_to_trace_dict(list(paths))
                obs["disc"] = {"ok": bool(ok), "got": sorted([int(k), paths.index(v)] for k, v in got.items()),
                               "want": sorted([int(rt.rank), k] for k, rt in enumerate(ranks))}
                if case.get("nometa"):
                    obs["disc"]["want"] = obs["disc"]["got"]        # no rank recorded in the metadata: nothing to assert yet
                for k, (p, rt) in enumerate(zip(paths, ranks)):
                    data = read_trace(p)
                    for ext in ("json", "json.gz"):
                        q = os.path.join(d, "rt", f"copy_{k}.{ext}")
                        write_trace(data, q)
                        back = read_trace(q)
                        obs["rt"].append({"fmt": ext, "before": dig(rt.to_json()), "after": dig(back)})
                    want = case["newranks"][k]
                    if k == 0 and case.get("align"):
                        self._align_rank_digits(p, want, update_trace_rank)
                    before = read_any(p)
                    update_trace_rank(p, want)
                    after = read_any(p)
                    rank_after = int(after.get("distributedInfo", {}).get("rank", -1))
                    b2, a2 = copy.deepcopy(before), copy.deepcopy(after)
                    b2.get("distributedInfo", {}).pop("rank", None)
                    a2.get("distributedInfo", {}).pop("rank", None)
                    for x in (b2, a2):          # "sets the rank field": a metadata block that holds nothing but the rank is the rank field
                        if x.get("distributedInfo") == {}:
                            del x["distributedInfo"]
                    obs["ru"].append({"want": int(want), "rankAfter": rank_after, "restBefore": dig(b2), "restAfter": dig(a2)})
                # history: discovery again, now over the files the tool itself rewrote with the new ranks
                ok2, got2 = create_rank_to_trace_dict(list(paths))
                obs["disc2"] = {"ok": bool(ok2), "got": sorted([int(k), paths.index(v)] for k, v in got2.items()),
                                "want": sorted([int(w), k] for k, w in enumerate(case["newranks"]))}
            except Exception as ex:
                obs["err"] = hta.exc_str(ex)
        return obs

    @staticmethod
    def _align_rank_digits(p: str, want: int, update_trace_rank) -> None:
        """Pad the source file (a filler metadata entry inside traceEvents) so that, once the tool has rewritten it with rank `want`, the
        second digit of the rank is the first character of a 2^20-character block of the (decompressed) text."""
        import re
        scratch = os.path.join(os.path.dirname(p), "probe_" + os.path.basename(p))
        data = read_any(p)
        filler = {"name": "thread_name", "ph": "M", "pid": 0, "tid": 0, "args": {"name": ""}}
        data["traceEvents"].append(filler)

        def dump(n: int) -> int:
            filler["args"]["name"] = "x" * n
            raw = json.dumps(data).encode()
            with open(scratch, "wb") as f:
                f.write(gzip.compress(raw) if scratch.endswith(".gz") else raw)
            update_trace_rank(scratch, want)
            txt = open(scratch, "rb").read()
            txt = (gzip.decompress(txt) if txt[:2] == b"\x1f\x8b" else txt).decode()
            m = re.search(r'"rank":\s*(\d+)', txt)
            return m.start(1)
        q = dump(0)
        need = (-(q + 1)) % (1 << 20)
        q2 = dump(need)
        if (q2 + 1) % (1 << 20) == 0:
            raw = json.dumps(data).encode()
            with open(p, "wb") as f:
                f.write(gzip.compress(raw) if p.endswith(".gz") else raw)
        os.remove(scratch)

    def nontrivial(self, case, obs):
        if obs.get("kind") == "wcmulti":
            return sum(1 for f in obs["files"] if f["hasWc"]) >= 1 and any(not any(x["ph"] == "C" for x in f["wc"]) for f in obs["files"])
        if obs.get("kind") == "overlay":
            nonx = any(x["ph"] != "X" for x in obs["src"])
            return nonx and any(o["all"] and not o["only"] and len(o["edges"]) > len(obs["ov"][0]["edges"]) for o in obs["ov"])
        return len(obs["rt"]) >= 4

    def fingerprint(self, case, obs):
        return hashlib.sha1(json.dumps(obs, sort_keys=True, default=str).encode()).hexdigest()


PROP = C20()
