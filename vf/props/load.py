"""Shared observation of the loader for C01, C02 and C12 (Trace_Load.tla)."""
from __future__ import annotations

import math
import os
import random
from fractions import Fraction
from typing import Any, Dict, List

from .. import gen, hta
from ..core import Prop

BIG = 2 ** 30


def clip(v: int) -> int:
    return max(-BIG, min(BIG, v))


def corr_map(events: List[Dict[str, Any]]) -> Dict[int, int]:
    """Correlation ids of a file renamed, order preserving, to 0, 1, 2, ... when some id is too large for TLC's 32-bit integers (ids
    up to 2^32 - 1 are legitimate: CUPTI counts them unsigned).  Equality and order of the ids are all the specification uses.  A value
    the file does not contain (what a wrapped id looks like) is shown to TLC as -5."""
    vals = sorted({int((e.get("args") or {}).get("correlation", -1)) for e in events if hta.is_complete(e)} - {-1})
    if not vals or vals[-1] < BIG:
        return {}
    return {v: i for i, v in enumerate(vals)}


def _cm(cmap: Dict[int, int], v: int) -> int:
    if not cmap or v == -1:
        return clip(v)
    return cmap.get(v, -5)


def abstract_entries(events: List[Dict[str, Any]], base: int, u: int, cmap: Dict[int, int] = {}) -> List[Dict[str, Any]]:
    out = []
    for i, e in enumerate(events):
        if hta.is_complete(e):
            kind = "X"
        elif e.get("ph") == "X" and e.get("cat") == "Trace":
            kind = "T"
        elif e.get("ph") == "X":
            kind = "N"
        else:
            kind = str(e.get("ph", "?"))
        if kind != "X":
            out.append({"id": i, "kind": kind, "ts": 0, "dur": 0, "pid": 0, "tid": 0, "stream": -1, "corr": -1, "name": "", "cat": ""})
            continue
        a = e.get("args") or {}
        ts = (Fraction(e["ts"]) - base) * u
        dur = Fraction(e["dur"]) * u
        assert ts.denominator == 1 and dur.denominator == 1, (e, u)
        out.append({"id": i, "kind": "X", "ts": int(ts), "dur": int(dur), "pid": e["pid"], "tid": e["tid"],
                    "stream": clip(int(a.get("stream", -1))), "corr": _cm(cmap, int(a.get("correlation", -1))), "name": e["name"], "cat": e["cat"]})
    return out


def project_frame(df, sym_table: List[str], base: int, shifted: bool, cmap: Dict[int, int] = {}) -> List[Dict[str, Any]]:
    cols = ["index", "ts", "dur", "end", "pid", "tid", "stream", "correlation", "name", "cat", "index_correlation", "iteration"]
    rows = []
    off = 0 if shifted else base
    for t in df[cols].itertuples(index=False):
        rows.append({
            "id": hta.ival(t[0]), "ts": clip(hta.ival(t[1]) - off), "dur": clip(hta.ival(t[2])),
            "end": clip(hta.ival(t[3]) - off), "pid": hta.ival(t[4]), "tid": hta.ival(t[5]), "stream": clip(hta.ival(t[6])),
            "corr": _cm(cmap, hta.ival(t[7])), "name": sym_table[int(t[8])], "cat": sym_table[int(t[9])],
            "link": hta.ival(t[10]), "iter": hta.scaled(t[11], 1),      # NaN (no iteration assigned, e.g. stream 0) -> sentinel -7777
        })
    return rows


def observe_load(case: Dict[str, Any], prop: str) -> Dict[str, Any]:
    from hta.common.trace import Trace
    from hta.trace_analysis import TraceAnalysis
    ranks = [gen.RankTrace(**r) for r in case["ranks"]]
    u = case["u"]
    incl = bool(case.get("incl", False))
    base = math.floor(min(Fraction(e["ts"]) for r in ranks for e in r.events if "ts" in e))
    cmaps = {r.rank: corr_map(r.events) for r in ranks}
    obs: Dict[str, Any] = {"prop": prop, "err": "", "u": u, "incl": incl,
                           "files": [{"rank": r.rank, "entries": abstract_entries(r.events, base, u, cmaps[r.rank])} for r in ranks]}
    # an option explicitly set to its documented "off" value must behave like the unset option
    if case.get("env_off"):
        os.environ["HTA_DISABLE_NS_ROUNDING"] = "0"
    else:
        os.environ.pop("HTA_DISABLE_NS_ROUNDING", None)
    with hta.CaseDir("load") as d:
        gen.write_trace_set(ranks, d)
        try:
            frames = {}
            for key, mp in (("parsed", False), ("parsedmp", True)):
                t = Trace(trace_dir=d)
                t.parse_traces(use_multiprocessing=mp)
                st = t.symbol_table.get_sym_table()
                frames[key] = [{"rank": r, "rows": project_frame(t.get_trace(r), st, base, False, cmaps.get(r, {}))} for r in sorted(t.traces)]
            ta = TraceAnalysis(trace_dir=d, include_last_profiler_step=incl)
            st = ta.t.symbol_table.get_sym_table()
            frames["loaded"] = [{"rank": r, "rows": project_frame(ta.t.get_trace(r), st, base, True, cmaps.get(r, {}))} for r in sorted(ta.t.traces)]
            obs.update(frames)
            obs["minTs"] = clip(hta.ival(ta.t.min_ts) - base)
            obs["iters"] = [[int(x) for x in ta.t.get_iterations(r)] for r in sorted(ta.t.traces)]
            if prop == "C12":
                obs["steps"] = [int(x) for x in ta.get_profiler_steps()]
        except Exception as ex:
            obs["err"] = hta.exc_str(ex)
    return obs


def load_cfg(rng: random.Random, tier: str, prop: str) -> gen.GenCfg:
    base = rng.choice([0, 7, 100, 32700, 1000, 10 ** 6, 1_700_000_000_000_000])
    if prop == "C01":
        frac = rng.choice([1, 8, 8, 4]) if base < 10 ** 12 else rng.choice([1, 4, 2])
    else:
        frac = 1
    return gen.GenCfg(
        n_ranks=rng.choice([1, 1, 2, 3, 4] if tier == "thorough" else [1, 2, 2, 3]),
        n_steps=rng.choice([0, 1, 2, 2, 3]),
        first_step_no=rng.choice([0, 3, 15, 8, 9, 98]),      # incl. numbers that gain a digit inside the trace (9 -> 10)
        # C01 speaks of every event mix: stream 0 (the legacy default stream) and interpreter frames included; C02 / C12 are stated for
        # positive stream ids
        streams=rng.choice([(7,), (7, 9), (7, 9, 13), (0, 7), (0,)] if prop == "C01" else [(7,), (7, 9), (7, 9, 13)]),
        python_functions=(prop == "C01" and rng.random() < 0.4),
        p_launch=rng.choice([0.4, 0.6]), p_mem=0.25, p_comm=0.3,
        p_sync=rng.choice([0.0, 0.1, 0.2]), p_event_sync=rng.choice([0.0, 0.1]),
        p_drop_kernel=rng.choice([0.0, 0.1, 0.3]), p_drop_launch=rng.choice([0.0, 0.1, 0.3]),
        pre_ops=rng.choice([0, 1, 2]), post_ops=rng.choice([0, 1, 2]),
        base=base, frac=frac, fmt=rng.choice(["json", "json.gz"]),
        unlinked_head=rng.choice([0, 0, 1, 2]),
        bwd_thread=rng.random() < 0.3,
        adv=rng.choice([(0, 0, 1, 1, 2, 3), (0, 1, 2, 5), (1, 2, 3)]),
        extras=rng.random() < 0.7, big_stream_marker=rng.random() < 0.3, p_nocorr_head=rng.choice([0.0, 0.5]),
        corr_base=rng.choice([0, 0, 100, 32700, 70000, 2 ** 31 - 3, 2 ** 32 - 2000]),      # CUPTI ids are unsigned 32-bit
        max_children=rng.choice([3, 3, 4]), max_depth=rng.choice([3, 3, 4]), ops_per_step=rng.choice([(1, 3), (2, 5)]),
    )


def gen_load_case(rng: random.Random, tier: str, prop: str, k: int = -1) -> Dict[str, Any]:
    cfg = load_cfg(rng, tier, prop)
    if k % 25 == 3:
        # no activity on any device stream: host operators, synchronising calls and their device-wide records (stream -1) only
        cfg.p_launch, cfg.p_sync, cfg.p_event_sync, cfg.unlinked_head, cfg.p_drop_kernel = 0.0, 0.5, 0.0, 0, 0.0
    elif k % 25 == 13:
        # launches whose activities are all missing from the file (plus synchronisation records)
        cfg.p_drop_kernel, cfg.p_sync, cfg.unlinked_head = 1.0, 0.3, 0
    if cfg.pre_ops == 0 and cfg.n_steps == 0 and cfg.post_ops == 0:
        cfg.pre_ops = 1
    if prop == "C12" and k % 10 == 6 and cfg.n_steps <= 4:
        cfg.first_step_no = (32766, 65534, 32767)[(k // 10) % 3]      # a trace taken late in a long run: step numbers cross a 16-bit edge
    ranks = gen.gen_trace_set(rng, cfg)
    if cfg.frac > 1:
        # the loader's inward rounding is switched per file by the dtype of the ts column: a file whose start times all happen to be
        # whole numbers written as integers is not rounded at all (that input class is exercised under C03 / C04-C07 / C08-C10 / C17 /
        # C19).  Here every file with fractional values carries at least one float-typed start time.
        for r in ranks:
            if not any(isinstance(e.get("ts"), float) for e in r.events):
                e = next(e for e in r.events if "ts" in e)
                e["ts"] = float(e["ts"])
    for r in ranks:   # mixed formats inside one trace set
        r.fmt = rng.choice(["json", "json.gz"])
    if cfg.frac == 1 and rng.random() < (0.15 if cfg.extras else 0.5):
        # integer-width edges: put the latest start exactly at the top of int8 / int16 / int32
        target = rng.choice([127, 32767, 2 ** 31 - 1])
        top = max(e["ts"] for r in ranks for e in r.events if "ts" in e)
        lo = min(e["ts"] for r in ranks for e in r.events if "ts" in e)
        delta = target - top
        if lo + delta >= 0:
            for r in ranks:
                for e in r.events:
                    if "ts" in e:
                        e["ts"] += delta
                r.base += delta
    if prop == "C01" and k % 10 == 4:
        # two entries that are identical in every field (the same user annotation recorded twice on one thread): still two complete events
        import copy as _copy
        for r in ranks:
            ops = [e for e in r.events if e.get("ph") == "X" and e.get("cat") == "cpu_op" and e.get("dur", 0) > 0]
            if ops:
                twin = _copy.deepcopy(ops[k % len(ops)])
                twin["cat"], twin["name"] = "user_annotation", "my_region"
                twin["args"] = {"External id": twin.get("args", {}).get("External id", 0)}
                r.events.append(twin)
                r.events.append(_copy.deepcopy(twin))
    return {"ranks": [r.__dict__ for r in ranks], "u": cfg.frac, "incl": rng.random() < 0.5, "env_off": rng.random() < 0.3}
