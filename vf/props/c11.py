"""C11 - symbol ids are a stable bijection; results ignore id numbering and parse order."""
from __future__ import annotations

import json
import os
import random
import subprocess
import sys
from typing import Any, Dict, List

from .. import gen, hta, tlc
from ..core import Prop
from .common import case_from_cfg

CHILD = os.path.join(os.path.dirname(os.path.dirname(os.path.abspath(__file__))), "c11_child.py")


def run_child(d: str, seed: int, mp: bool, renum: str, order: str, files: List[str], hist: str = "") -> Dict[str, Any]:
    env = dict(os.environ, PYTHONHASHSEED=str(seed), HTA_VERIF="1", VF_ORDER=order, VF_C11_HIST=hist)
    if order == "rev":     # later ranks finish first
        env["HTA_VERIF_DELAYS"] = json.dumps({f"parse:{os.path.basename(f)}": 0.15 * (len(files) - k) for k, f in enumerate(files)})
    elif order == "fwd":
        env["HTA_VERIF_DELAYS"] = json.dumps({f"parse:{os.path.basename(f)}": 0.15 * k for k, f in enumerate(files)})
    p = subprocess.run(["/venv/bin/python", CHILD, d, "1" if mp else "0", renum], env=env, stdout=subprocess.PIPE, stderr=subprocess.PIPE, text=True)
    for line in p.stdout.splitlines():
        if line.startswith("@@C11 "):
            return json.loads(line[6:])
    raise RuntimeError(f"c11 child produced no record (rc={p.returncode}): {p.stderr[-800:]}")


SPECIAL_FIRST = {"Context Sync", "Event Sync", "Stream Sync", "cudaLaunchKernel", "cudaMemcpyAsync", "cudaMemsetAsync", "kernel", "cuda_runtime",
                 "cuda_sync", "gpu_memcpy", "cpu_op", "user_annotation", "gpu_user_annotation"}
_FIRST_SNIPPET = "import sys,json; c,n=json.loads(sys.stdin.read()); print(next(iter(set(c).union(set(n)))))"


def first_symbol_seeds(rt, seeds) -> List[int]:
    """Hash seeds under which the first symbol of the rank's local table (built as set(cat) | set(name), as the parser does) has a special
    role: at most one seed per group (synchronisation records, launch calls, categories).  One tiny interpreter per candidate seed (no
    pandas), a few milliseconds each."""
    cats, names = [], []
    for e in rt.events:
        if hta.is_complete(e):
            if e["cat"] not in cats:
                cats.append(e["cat"])
            if e["name"] not in names:
                names.append(e["name"])
    present = set(cats) | set(names)
    groups = [g & present for g in ({"Context Sync", "Event Sync"}, {"cudaLaunchKernel", "cudaMemcpyAsync", "cudaMemsetAsync"},
                                    SPECIAL_FIRST - {"Context Sync", "Event Sync", "cudaLaunchKernel", "cudaMemcpyAsync", "cudaMemsetAsync"})]
    if not any(groups):
        return []
    payload = json.dumps([cats, names])
    found: Dict[int, int] = {}
    for s in seeds:
        p = subprocess.run(["/venv/bin/python", "-S", "-c", _FIRST_SNIPPET], input=payload, env={"PYTHONHASHSEED": str(s)}, stdout=subprocess.PIPE,
                           stderr=subprocess.PIPE, text=True)
        first = p.stdout.strip() if p.returncode == 0 else ""
        for gi, g in enumerate(groups):
            if first in g and gi not in found:
                found[gi] = s
        if all((gi in found) or not g for gi, g in enumerate(groups)):
            break
    return [found[gi] for gi in sorted(found)]


class C11(Prop):
    id = "C11"
    trace_module = "Trace_SymbolTable"
    mc = [{"module": "MC_SymbolTable", "quick": "MC_SymbolTable_ops.cfg", "thorough": "MC_SymbolTable_ops4.cfg", "actions": ["AddSymbols", "AddSymbolsMP", "Clone", "Combine"]},
          {"module": "MC_SymbolTable", "quick": "MC_SymbolTable_load.cfg", "thorough": "MC_SymbolTable_load.cfg", "actions": []}]
    n_cases = {"quick": 24, "thorough": 200}
    par = 8
    rule = ("(a) rank-file sets with different vocabularies and sizes (1-4 ranks), each loaded in separate interpreter processes under "
            "PYTHONHASHSEED in {0,1,2,3}, with the process pool on and off, with worker completion forced forwards and backwards through the "
            "HTA_VERIF delay hook, and after an explicit random renumbering of the loaded table; (b) TLC-simulated operation histories "
            "(add_symbols with repeats, add_symbols_mp, clone, combine) replayed into the real TraceSymbolTable with sym_table/sym_index recorded "
            "after every step; non-trivial iff two configurations of a set produced different numberings (a) / the history adds a repeated "
            "symbol or uses add_symbols_mp (b)")
    assumptions = ["'every hash seed' is decided as: all numberings and schedules in the model (MC_SymbolTable), four real seeds plus random renumberings on the code",
                   "analysis outputs are compared through digests of canonicalised tables (floats rounded to 6 places) computed by the harness"]

    def gen_case(self, rng, k, tier):
        cfg = gen.GenCfg(n_ranks=rng.choice([1, 2, 3, 4]), n_steps=rng.choice([0, 1, 2]), p_launch=0.6, p_mem=0.3, p_comm=0.3,
                         p_sync=rng.choice([0, 0.1, 0.2]), streams=rng.choice([(7,), (7, 9)]), max_children=rng.choice([2, 3]),
                         base=rng.choice([0, 1000]), fmt=rng.choice(["json", "json.gz"]),
                         kdur=rng.choice([(0, 1, 2, 3, 5, 8), (1, 2), (2,)]), gpu_annotations=rng.random() < 0.5)      # few distinct durations: exact ties between the totals of different names
        superset = cfg.n_ranks >= 2 and rng.random() < 0.4
        if superset:
            # a small first rank whose vocabulary is contained in a later rank's: the job's table then has the SIZE of that rank's own
            # table but another order
            cfg.per_rank = {0: {"ops_per_step": (1, 1), "pre_ops": 1, "post_ops": 0, "max_depth": 2, "max_children": 2}}
        case = case_from_cfg(rng, cfg)
        # different vocabularies per rank: rename some operators rank-specifically
        for r in case["ranks"]:
            if r["rank"] % 2 == 1 and not superset:
                for e in r["events"]:
                    if e.get("name") == "aten::add":
                        e["name"] = f"aten::add_rank{r['rank']}"
        if superset:
            big = case["ranks"][-1]
            bycat: Dict[str, List[str]] = {}
            for e in big["events"]:
                if hta.is_complete(e) and not e["name"].startswith("ProfilerStep"):
                    bycat.setdefault(e["cat"], []).append(e["name"])
            have = {n for ns in bycat.values() for n in ns}
            for r in case["ranks"][:-1]:
                for e in r["events"]:
                    if hta.is_complete(e) and e["name"] not in have and not e["name"].startswith("ProfilerStep") and bycat.get(e["cat"]):
                        e["name"] = rng.choice(sorted(set(bycat[e["cat"]])))
        if len(case["ranks"]) >= 2 and not superset and rng.random() < 0.5:
            # very different vocabulary sizes: rank 0 gets > 130 distinct operator names, so later ranks' own symbols get ids >= 128
            r0 = case["ranks"][0]
            hosts = [e for e in r0["events"] if e.get("cat") == "cpu_op"]
            need = 140
            k = 0
            while len(hosts) and k < need:
                e = hosts[k % len(hosts)]
                if k < len(hosts):
                    e["name"] = f"aten::u{k}"
                else:     # not enough operators: add tiny extra ones inside the first operator's span
                    r0["events"].append({"ph": "X", "cat": "cpu_op", "name": f"aten::u{k}", "pid": e["pid"], "tid": e["tid"] + 50,
                                         "ts": hosts[0]["ts"], "dur": 0, "args": {"External id": 9000 + k}})
                k += 1
        if rng.random() < 0.5:
            # a string used both as a category and as an event name in the same file (a record_function("kernel") block, an operator
            # literally called "cpu_op"): one symbol, two roles
            for r in case["ranks"]:
                if rng.random() < 0.6:
                    cats = sorted({e["cat"] for e in r["events"] if e.get("ph") == "X" and "dur" in e and e.get("cat") in ("kernel", "cpu_op", "cuda_runtime", "gpu_memcpy")})
                    hosts = [e for e in r["events"] if e.get("cat") == "cpu_op" and e.get("ph") == "X"]
                    if cats and hosts:
                        rng.choice(hosts)["name"] = rng.choice(cats)
        case["dictmode"] = rng.choice(["dir", "dict_same", "dict_perm"]) if len(case["ranks"]) >= 2 else "dir"
        case["strip_meta"] = rng.random() < 0.4
        case["seeds"] = [0, 1, 2, 3] if tier == "thorough" else [0, 1, 2]
        case["renum"] = [f"r{rng.randrange(1000)}" for _ in range(2)]
        return case

    def observe(self, case):
        obs: Dict[str, Any] = {"prop": "C11", "kind": "load", "configs": []}
        with hta.CaseDir("c11") as d:
            rts = [gen.RankTrace(**r) for r in case["ranks"]]
            mode = case.get("dictmode", "dir")
            if mode != "dir" and case.get("strip_meta"):
                for rt in rts:
                    rt.meta.pop("distributedInfo", None)      # ranks come from the caller's mapping only
            files = gen.write_trace_set(rts, d)
            multi = len(files) > 1
            mapping = None
            if mode == "dict_same":
                mapping = {k: f for k, f in enumerate(files)}
            elif mode == "dict_perm":       # the caller numbers the files differently from their metadata
                perm = list(range(len(files)))
                random.Random(case["id"]).shuffle(perm)
                mapping = {k: files[perm[k]] for k in range(len(files))}
            os.environ["VF_C11_MAPPING"] = json.dumps(mapping) if mapping else ""
            cfgs = []
            for s in case["seeds"]:
                cfgs.append((s, False, "none", ""))
                cfgs.append((s, True, "none", "rev" if (multi and s % 2 == 1) else "fwd" if multi else ""))
            for rn in case["renum"]:
                cfgs.append((0, False, rn, ""))
            # directed seeds: hash seeds under which a symbol with a special role (a synchronisation record, a launch call, a category)
            # is the FIRST symbol of the first rank's table, i.e. gets id 0
            for s in first_symbol_seeds(rts[0], range(4, 124))[:3]:
                cfgs.append((s, False, "none", ""))
            cfgs = [c + ("",) for c in cfgs]
            if multi:
                # call histories on one Trace object: one rank parsed alone first (its vocabulary seeds the table), then everything loaded
                nr = len(files)
                cfgs.append((0, False, "none", "", str(nr - 1)))
                cfgs.append((1, True, "none", "fwd", str(nr // 2)))
                cfgs.append((2, False, "none", "", "grow"))
                cfgs.append((3, True, "none", "", "grow"))
            # call history across objects: ANOTHER trace set (same events; communication and computation kernel names exchanged, operator
            # names changed, so equal ids mean different strings) is loaded and analysed first in the same interpreter; the outputs for the
            # set under test must not depend on it (an id of one symbol table says nothing about another table)
            import copy, shutil, tempfile
            decoy = tempfile.mkdtemp(prefix="c11decoy-", dir=os.path.dirname(d.rstrip("/")) or None)
            try:
                comm, comp = sorted(gen.K_COMM), sorted(gen.K_COMP)
                swap = {n: comp[k % len(comp)] for k, n in enumerate(comm)}
                swap.update({n: comm[k % len(comm)] for k, n in enumerate(comp)})
                drts = copy.deepcopy(rts)
                for rt in drts:
                    for e in rt.events:
                        if e.get("cat") == "cpu_op":
                            e["name"] = str(e["name"]) + "_decoy"
                        elif e.get("name") in swap:
                            e["name"] = swap[e["name"]]
                gen.write_trace_set(drts, decoy)
                os.environ["VF_C11_DECOY"] = decoy
                for s in case["seeds"][:2]:
                    cfgs.append((s, False, "none", "", "decoy"))
                for s, mp, rn, order, hist in cfgs:
                    obs["configs"].append(run_child(d, s, mp, rn, order, files, hist))
            finally:
                os.environ.pop("VF_C11_DECOY", None)
                shutil.rmtree(decoy, ignore_errors=True)
        return obs

    def nontrivial(self, case, obs):
        tables = {json.dumps(c["table"]) for c in obs["configs"]}
        return len(tables) >= 2

    def fingerprint(self, case, obs):
        import hashlib
        return hashlib.sha1(json.dumps([c["frames"] for c in obs["configs"]] + [c["table"] for c in obs["configs"]]).encode()).hexdigest()

    # ---- spec -> code replay of table operation histories, validated code -> spec by TLC
    def extra(self, ctx):
        from ..core import _work_replay
        n = 60 if ctx.tier == "quick" else 600
        hists = tlc.simulate_cases("MC_SymbolTable", "MC_SymbolTable_sim.cfg", num=40, depth=8, seed=ctx.seed + 1)
        seen, uniq = set(), []
        for h in hists:
            key = json.dumps([[s["op"], s["arg"]] for s in h])
            if key not in seen:
                seen.add(key)
                uniq.append(h)
        random.Random(ctx.seed).shuffle(uniq)
        uniq = uniq[:n]
        hta.setup()
        pairs = []
        for k, h in enumerate(uniq):
            case = {"id": f"C11-ops-{ctx.seed}-{k}", "ops": [[s["op"], s["arg"]] for s in h]}
            obs = replay_ops(case)
            obs["id"] = case["id"]
            pairs.append((case, obs))
        ctx.validate_pairs(pairs)
        ctx.replayed += len(pairs)
        ctx.validated -= len(pairs)


def replay_ops(case: Dict[str, Any]) -> Dict[str, Any]:
    from hta.common.trace_symbol_table import TraceSymbolTable
    obs: Dict[str, Any] = {"prop": "C11", "kind": "ops", "err": "", "steps": []}
    t = TraceSymbolTable()
    scratch = TraceSymbolTable()
    try:
        for op, arg in case["ops"]:
            if op == "add":
                t.add_symbols(list(arg[0]))
            elif op == "add_mp":
                t.add_symbols_mp([list(x) for x in arg])
            elif op == "clone":
                scratch = TraceSymbolTable.clone(t)
            elif op == "combine":
                t = TraceSymbolTable.combine_symbol_tables([scratch, t])
            obs["steps"].append({"op": op, "arg": arg, "table": list(t.get_sym_table()),
                                 "index": sorted([[s, int(i)] for s, i in t.get_sym_id_map().items()], key=lambda p: p[1]),
                                 "scratch": list(scratch.get_sym_table())})
    except BaseException as ex:
        obs["err"] = hta.exc_str(ex)
    return obs


class _C11(C11):
    def observe(self, case):
        if "ops" in case:
            return replay_ops(case)
        return super().observe(case)

    def nontrivial(self, case, obs):
        if obs.get("kind") == "ops":
            return any(s["op"] == "add_mp" or len(set(s["arg"][0])) < len(s["arg"][0]) for s in obs["steps"] if s["op"] in ("add", "add_mp") and s["arg"])
        return super().nontrivial(case, obs)

    def fingerprint(self, case, obs):
        if obs.get("kind") == "ops":
            import hashlib
            return hashlib.sha1(json.dumps(case["ops"]).encode()).hexdigest()
        return super().fingerprint(case, obs)


PROP = _C11()
