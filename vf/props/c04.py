"""C04 - temporal breakdown is an exact partition of the GPU activity span."""
from __future__ import annotations

import random
from typing import Any, Dict

from .. import gen, hta
from ..core import Prop
from .common import file_entries, case_from_cfg, draw_prefix, frame_rows, write_and_load


def breakdown_cfg(rng: random.Random, tier: str) -> gen.GenCfg:
    cfg = _breakdown_cfg(rng, tier)
    if rng.random() < 0.3:          # a sampled job: the rank numbers are not 0..n-1
        cfg.rank_ids = tuple(sorted(rng.sample(range(0, 9), cfg.n_ranks)))
    return cfg


def maybe_fractional(rng: random.Random, case: Dict[str, Any], k: int) -> None:
    """Every eighth case: whole-microsecond starts with durations in quarter microseconds (the loader rounds nothing on such files)."""
    if k % 8 == 5 and all(r["ticks"] == 1 for r in case["ranks"]):
        from .cp import fractional_durations
        fractional_durations(rng, case)


def _breakdown_cfg(rng: random.Random, tier: str) -> gen.GenCfg:
    big = tier == "thorough" and rng.random() < 0.3
    return gen.GenCfg(
        n_ranks=rng.choice([1, 1, 2, 3, 4] if tier == "thorough" else [1, 1, 2]),
        n_steps=rng.choice([0, 1, 2, 3]),
        streams=rng.choice([(7,), (7, 9), (7, 9, 13), (0, 7), (0,)]),       # stream 0: the legacy default stream is a device stream too
        p_launch=rng.choice([0.5, 0.7, 0.9]), p_mem=rng.choice([0.1, 0.3]), p_comm=rng.choice([0.2, 0.5]),
        p_sync=rng.choice([0.0, 0.1]),
        kdur=rng.choice([(0, 1, 2, 3), (0, 1, 2, 3, 5, 8), (1, 4, 9, 20)]),
        kgap=rng.choice([(0, 0, 1, 2), (0, 1, 5, 30), (0, 0, 0, 1)]),
        max_children=4 if big else 3, max_depth=4 if big else 3,
        ops_per_step=(2, 5) if big else (1, 3),
        base=rng.choice([0, 1000, 10 ** 6, 1_700_000_000_000_000]),
        fmt=rng.choice(["json", "json.gz"]),
        unlinked_head=rng.choice([0, 0, 1, 2]), p_nocorr_head=rng.choice([0.0, 0.5]), big_vocab=rng.random() < 0.25,
        gpu_annotations=rng.random() < 0.5, p_nested_annotation=rng.choice([0.0, 0.2]), bwd_annotation=rng.random() < 0.3,
    )


class C04(Prop):
    id = "C04"
    trace_module = "Trace_Breakdown"
    mc = [{"module": "MC_Breakdown", "quick": "MC_Breakdown_quick.cfg", "thorough": "MC_Breakdown.cfg",
           "actions": ["MergeRow", "EndPass", "SweepRow", "Finish"]}]
    n_cases = {"quick": 300, "thorough": 4000}
    rule = ("seeded program-simulation generator (vf/gen.py): 1-4 ranks, 0-3 profiler steps, 1-3 streams, kernel durations "
            "incl. 0, gaps incl. 0; a case is non-trivial iff two device activities of a rank touch, nest, coincide or one has "
            "zero length; distinct = distinct projected inputs+outputs")
    assumptions = ["a device activity is a frame row with stream != -1 (what the analyzer selects); inputs are the rows of the "
                   "loaded frames (C01/C12 bind frames to files)",
                   "percentages are checked only when kernel_time > 0"]

    def gen_case(self, rng, k, tier):
        for _ in range(50):
            case = case_from_cfg(rng, breakdown_cfg(rng, tier))
            if all(any(e.get("pid") == 0 and e.get("ph") == "X" for e in r["events"]) for r in case["ranks"]):
                maybe_fractional(rng, case, k)
                case["prefix"] = draw_prefix(rng)
                if k % 7 == 3:
                    # a computation kernel whose name merely CONTAINS the word of another class (not at its start)
                    for r in case["ranks"]:
                        comp = [e for e in r["events"] if e.get("ph") == "X" and e.get("cat") == "kernel" and e.get("name") in gen.K_COMP]
                        if comp:
                            old_name = comp[k % len(comp)]["name"]
                            for e in comp:
                                if e["name"] == old_name:
                                    e["name"] = gen.K_COMP_MEMSET_LIKE
                return case
        raise RuntimeError("could not generate a trace with device activities on every rank")

    def observe(self, case: Dict[str, Any]) -> Dict[str, Any]:
        with hta.CaseDir("c04") as d:
            ta = write_and_load(case, d)
            ranks = sorted(ta.t.traces)
            u = int(case.get("u", 1))
            rows = {r: frame_rows(ta, r, u=u) for r in ranks}
            obs = {"prop": "C04", "err": "", "ranks": []}
            if any(not any(x["stream"] != -1 for x in rows[r]) for r in ranks):
                # trimming removed every device activity of some rank: outside the quantifier
                return {"skip": True}
            try:
                df = ta.get_temporal_breakdown(visualize=False)
            except Exception as ex:
                obs["err"] = hta.exc_str(ex)
                obs["ranks"] = [{"rank": r, "file": file_entries(case, r), "rows": rows[r]} for r in ranks]
                return obs
            # the shape of the result is part of the contract: exactly one row per loaded rank, keyed by that rank
            try:
                got = [int(x) for x in df["rank"].tolist()]
            except Exception as ex:
                got = None
            if got is None or sorted(got) != ranks:
                obs["err"] = f"result rows are keyed {list(df['rank'])!r}, the loaded ranks are {ranks}".replace('"', "'")
                obs["ranks"] = [{"rank": r, "file": file_entries(case, r), "rows": rows[r]} for r in ranks]
                return obs
            for _, row in df.iterrows():
                r = int(row["rank"])
                obs["ranks"].append({
                    "rank": r, "file": file_entries(case, r), "rows": rows[r],
                    "idle": hta.ival(row["idle_time(us)"] * u), "comp": hta.ival(row["compute_time(us)"] * u),
                    "ncomp": hta.ival(row["non_compute_time(us)"] * u), "ktime": hta.ival(row["kernel_time(us)"] * u),
                    "idleP": hta.scaled(row["idle_time_pctg"], 100), "compP": hta.scaled(row["compute_time_pctg"], 100),
                    "ncompP": hta.scaled(row["non_compute_time_pctg"], 100),
                })
            return obs

    # ---- spec -> code: every small multiset of intervals through the real merge_kernel_intervals
    def extra(self, ctx):
        import pandas as pd
        from .. import tlc
        hta.setup()
        from hta.utils.utils import merge_kernel_intervals
        cases, _ = tlc.enumerate_cases("MC_MergeEmit", "MC_MergeEmit.cfg")
        drift = []
        for c in cases:
            df = pd.DataFrame({"ts": [r["ts"] for r in c["rows"]], "dur": [r["dur"] for r in c["rows"]]})
            out = merge_kernel_intervals(df.copy())
            real = [[int(a), int(b)] for a, b in zip(out["ts"], out["end"])]
            model = [[g["ts"], g["end"]] for g in c["groups"]]
            if real != model:
                drift.append((c["rows"], real, model))
        ctx.replayed += len(cases)
        ctx.extra_cov["merge_inputs_replayed"] = len(cases)
        ctx.extra_cov["merge_model_drift"] = len(drift)
        if drift:
            print(f"SPEC-DRIFT {self.id}: merge_kernel_intervals and Intervals.tla disagree on {len(drift)} of {len(cases)} inputs; first: {drift[0]}")
            ctx.notes.append(f"SPEC-DRIFT: {len(drift)} merge inputs differ between Intervals.tla and the code")

    def nontrivial(self, case, obs) -> bool:
        for rk in obs["ranks"]:
            acts = [(x["ts"], x["ts"] + x["dur"]) for x in rk["rows"] if x["stream"] != -1]
            for i, a in enumerate(acts):
                if a[0] == a[1]:
                    return True
                for b in acts[i + 1:]:
                    if a[1] == b[0] or b[1] == a[0] or a == b or (a[0] <= b[0] and b[1] <= a[1]) or (b[0] <= a[0] and a[1] <= b[1]):
                        return True
        return False


PROP = C04()
