from .cp import C10

PROP = C10()
