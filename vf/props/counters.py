"""C14 (queue length / memory bandwidth / counter events), C15 (launch statistics), C06 (idle-time breakdown)."""
from __future__ import annotations

import gzip
import json
import os
import random
from typing import Any, Dict, List

from .. import gen, hta
from ..core import Prop
from .load import clip
from .common import file_entries, case_from_cfg, draw_prefix, write_and_load


def rows_full(ta, rank: int) -> List[Dict[str, Any]]:
    df = ta.t.get_trace(rank)
    st = ta.t.symbol_table.get_sym_table()
    cols = ["index", "ts", "dur", "pid", "tid", "stream", "correlation", "index_correlation", "name", "cat", "memory_bw_gbps"]
    out = []
    for t in df[cols].itertuples(index=False):
        out.append({"id": hta.ival(t[0]), "ts": hta.ival(t[1]), "dur": hta.ival(t[2]), "pid": hta.ival(t[3]), "tid": hta.ival(t[4]),
                    "stream": hta.ival(t[5]), "corr": hta.ival(t[6]), "link": hta.ival(t[7]), "name": st[int(t[8])], "cat": st[int(t[9])],
                    "bw": hta.scaled(t[10], 4096)})
    return out


def counters_cfg(rng: random.Random, tier: str) -> gen.GenCfg:
    return gen.GenCfg(
        n_ranks=rng.choice([1, 1, 2, 3]), n_steps=rng.choice([0, 1, 2, 3]),
        streams=rng.choice([(7,), (7, 9), (7, 9, 13)]),
        p_launch=rng.choice([0.5, 0.7, 0.9]), p_mem=rng.choice([0.2, 0.5]), p_comm=0.2,
        p_sync=rng.choice([0.0, 0.1]), p_event_sync=rng.choice([0.0, 0.05]),
        p_drop_kernel=rng.choice([0.0, 0.1]), p_drop_launch=rng.choice([0.0, 0.1]),
        kdelay=rng.choice([(0, 0, 0, 1), (0, 0, 1, 2, 4)]), kdur=rng.choice([(0, 1, 2, 3), (0, 1, 2, 3, 5, 8)]),
        kgap=rng.choice([(0, 0, 1, 2), (0, 1, 5, 30, 31), (0, 29, 30, 31)]),
        base=rng.choice([0, 1000, 10 ** 6]), fmt=rng.choice(["json", "json.gz"]),
        unlinked_head=rng.choice([0, 0, 1, 2, 3]), bwd_thread=rng.random() < 0.2,
        max_children=rng.choice([3, 4]),
        corr_stride=rng.choice([100, 0, 0]), p_unlisted_launch=rng.choice([0.0, 0.15]),
        big_vocab=rng.random() < 0.2, p_mem_as_kernel=rng.choice([0.0, 0.2]),
        corr_base=rng.choice([100, 100, 1, 0]),          # correlation ids may start at 0 (a valid id, not "missing")
    )


class C14(Prop):
    id = "C14"
    trace_module = "Trace_Counters"
    mc = [{"module": "MC_Counters", "quick": "MC_Counters_quick.cfg", "thorough": "MC_Counters.cfg", "actions": ["Row", "Finish"]}]
    n_cases = {"quick": 300, "thorough": 4000}
    rule = ("seeded generator: launches and kernel starts interleaved on 1-3 streams with start = launch start allowed (kdelay 0), memcpy/"
            "memset copies with dyadic bandwidths incl. zero-length copies, 1-3 ranks requested in random subsets; non-trivial iff a "
            "launch and an activity of the same stream share a timestamp or a zero-length copy exists")
    assumptions = ["WellFormed (re-evaluated by TLC); bandwidths in generated files are dyadic (multiples of 2^-12) so that x4096 scaling is exact",
                   "counter events are read back from the written *_with_counters file by magic bytes (the tool writes gzip data under a .json name)"]

    def gen_case(self, rng, k, tier):
        cfg = counters_cfg(rng, tier)
        if rng.random() < 0.25:
            cfg.kdelay = (-2, -1, 0, 0, 1)       # host / device clock skew: an activity may be stamped BEFORE its launch call (the count dips below 0)
        if rng.random() < 0.25:
            # entries without any correlation id on both sides (a launch call whose activity is missing, activities at the head of the trace):
            # "no id" is not an id, nothing is linked through it
            cfg.p_nocorr_launch, cfg.p_nocorr_head, cfg.p_drop_kernel = 0.7, 0.6, 0.3
            cfg.unlinked_head = max(cfg.unlinked_head, 2)
        case = case_from_cfg(rng, cfg)
        n = len(case["ranks"])
        case["req"] = sorted(rng.sample(range(n), rng.randint(1, n)))
        case["prefix"] = draw_prefix(rng)
        return case

    def observe(self, case):
        with hta.CaseDir("c14") as d:
            ta = write_and_load(case, d)
            req = [r for r in case["req"] if r in ta.t.traces]
            obs = {"prop": "C14", "err": "", "ranks": [], "minTs": 0, "blockedErr": "", "summaryErr": ""}
            rows = {r: rows_full(ta, r) for r in req}
            try:
                qs = ta.get_queue_length_time_series(ranks=req)
                bws = ta.get_memory_bw_time_series(ranks=req)
                qser, bwser = {}, {}
                for r in req:
                    qser[r] = [] if r not in qs else [
                        {"id": int(i), "ts": hta.ival(t[0]), "pid": hta.ival(t[1]), "tid": hta.ival(t[2]), "key": hta.ival(t[3]), "val": clip(hta.ival(t[4]))}
                        for i, t in zip(qs[r].index.tolist(), qs[r][["ts", "pid", "tid", "stream", "queue_length"]].itertuples(index=False))]
                    bwser[r] = [] if r not in bws else [
                        {"ts": hta.ival(t[0]), "pid": hta.ival(t[1]), "key": str(t[2]), "val": hta.scaled(t[3], 4096)}
                        for t in bws[r][["ts", "pid", "name", "memory_bw_gbps"]].itertuples(index=False)]
                # beyond the listed property (DESIGN.md section 5, "beyond"): time spent at or above a queue length, derived from the series
                blocked: Dict[int, List[Dict[str, int]]] = {r: [] for r in req}
                obs["blockedErr"] = ""
                try:
                    for m in (1, 2):
                        bt = ta.get_time_spent_blocked_on_full_queue(qs, max_queue_length=m)
                        if bt is not None:
                            for t in bt[["rank", "stream", "duration_at_max_queue_length"]].itertuples(index=False):
                                if int(t[0]) in blocked:
                                    blocked[int(t[0])].append({"m": m, "stream": hta.ival(t[1]), "dur": hta.ival(t[2])})
                except Exception as ex:
                    obs["blockedErr"] = hta.exc_str(ex)
                # beyond the listed property: per-key summaries (count / min / max / mean) of the two series
                qsum: Dict[int, List[Dict[str, Any]]] = {r: [] for r in req}
                bwsum: Dict[int, List[Dict[str, Any]]] = {r: [] for r in req}
                obs["summaryErr"] = ""
                try:
                    sq = ta.get_queue_length_summary(ranks=req)
                    if sq is not None:
                        for (rk_, key), row in sq["queue_length"].iterrows():
                            if int(rk_) in qsum:
                                qsum[int(rk_)].append({"key": hta.ival(key), "count": hta.ival(row["count"]), "min": clip(hta.ival(row["min"])),
                                                       "max": clip(hta.ival(row["max"])), "total": hta.scaled(row["mean"] * row["count"], 1)})
                    sb = ta.get_memory_bw_summary(ranks=req)
                    if sb is not None:
                        for (rk_, key), row in sb["memory_bw_gbps"].iterrows():
                            if int(rk_) in bwsum:
                                bwsum[int(rk_)].append({"key": str(key), "count": hta.ival(row["count"]), "min": hta.scaled(row["min"], 4096),
                                                        "max": hta.scaled(row["max"], 4096), "total": hta.scaled(row["mean"] * row["count"], 4096)})
                except Exception as ex:
                    obs["summaryErr"] = hta.exc_str(ex)
                ta.generate_trace_with_counters(ranks=req)
                base = min(int(e["ts"]) for r in case["ranks"] for e in r["events"] if "ts" in e)
                obs["minTs"] = hta.ival(ta.t.min_ts) - base
                for r in req:
                    src = ta.t.trace_files[r]
                    outp = src.replace(".json", "_with_counters.json")
                    ceq, cebw = [], []
                    if os.path.exists(outp):
                        raw = open(outp, "rb").read()
                        data = json.loads(gzip.decompress(raw) if raw[:2] == b"\x1f\x8b" else raw)
                        for e in data["traceEvents"]:
                            if e.get("ph") != "C":
                                continue
                            (name, val), = e["args"].items()
                            if name == "Queue Length":
                                ceq.append({"ts": hta.ival(e["ts"]) - base, "pid": hta.ival(e["pid"]), "sid": hta.ival(e["id"]), "val": clip(hta.ival(val)), "name": e["name"]})
                            else:
                                cebw.append({"ts": hta.ival(e["ts"]) - base, "pid": hta.ival(e["pid"]), "sid": -1, "val": hta.scaled(val, 4096), "name": e["name"]})
                    obs["ranks"].append({"rank": r, "file": file_entries(case, r), "rows": rows[r], "q": qser[r], "bw": bwser[r], "ceq": ceq, "cebw": cebw, "blocked": blocked[r],
                                         "qsum": qsum[r], "bwsum": bwsum[r]})
            except Exception as ex:
                obs["err"] = hta.exc_str(ex)
            return obs

    def nontrivial(self, case, obs):
        for rk in obs["ranks"]:
            byid = {x["id"]: x for x in rk["rows"]}
            for x in rk["rows"]:
                if x["link"] > 0 and x["stream"] == -1 and x["link"] in byid and byid[x["link"]]["ts"] == x["ts"] and x["name"] in gen.LAUNCH_NAMES:
                    return True
                if x["bw"] > 0 and x["dur"] == 0:
                    return True
        return False


class C15(Prop):
    id = "C15"
    trace_module = "Trace_Counters"
    mc = [{"module": "MC_Links", "quick": "MC_Links_quick.cfg", "thorough": "MC_Links.cfg", "actions": ["InitSentinel", "MergeRow", "Done"]}]
    n_cases = {"quick": 300, "thorough": 4000}
    rule = ("seeded generator with kernel / memcpy / memset launches, unrelated runtime calls, missing partners; include_memory_events on/off, "
            "random rank subsets; non-trivial iff some delay is clipped at 0 and memory launches are present")
    assumptions = ["WellFormed; launches through cuLaunchKernel / hip* are accepted both listed and not listed (the statement does not decide it)",
                   "the join mechanism is the link relation model-checked in MC_Links"]

    def gen_case(self, rng, k, tier):
        cfg = counters_cfg(rng, tier)
        if k % 4 == 2:
            cfg.kdelay = (-3, -2, 0, 0, 1)       # host / device clock skew: an activity may be stamped BEFORE its launch call begins (delay 0, row kept)
        if k % 8 == 5:
            cfg.per_rank = {0: {"p_mem": 1.0, "p_launch": 0.9}}     # a rank whose only launches are copies / memsets
        case = case_from_cfg(rng, cfg)
        n = len(case["ranks"])
        case["req"] = rng.sample(range(n), rng.randint(1, n))       # any order
        case["mem"] = rng.random() < 0.5
        case["prefix"] = draw_prefix(rng)
        return case

    def observe(self, case):
        with hta.CaseDir("c15") as d:
            ta = write_and_load(case, d)
            req = [r for r in case["req"] if r in ta.t.traces]
            obs = {"prop": "C15", "err": "", "mem": bool(case["mem"]), "ranks": []}
            try:
                res = ta.get_cuda_kernel_launch_stats(ranks=req, include_memory_events=case["mem"], visualize=False)
                for r in req:
                    stats = [{"corr": hta.oval(t[0]), "cpu": hta.oval(t[1]), "gpu": hta.oval(t[2]), "delay": hta.oval(t[3])}
                             for t in res[r][["correlation", "cpu_duration", "gpu_duration", "launch_delay"]].itertuples(index=False)]
                    obs["ranks"].append({"rank": r, "file": file_entries(case, r), "rows": rows_full(ta, r), "stats": stats})
            except Exception as ex:
                obs["err"] = hta.exc_str(ex)
            return obs

    def nontrivial(self, case, obs):
        for rk in obs["ranks"]:
            byid = {x["id"]: x for x in rk["rows"]}
            clipped = any(x["link"] > 0 and x["stream"] == -1 and x["name"] in gen.LAUNCH_NAMES and x["link"] in byid
                          and byid[x["link"]]["ts"] < x["ts"] + x["dur"] for x in rk["rows"])
            mem = any(x["name"] in gen.MEM_LAUNCH_NAMES for x in rk["rows"])
            if clipped and mem:
                return True
        return False


class C06(Prop):
    id = "C06"
    trace_module = "Trace_Counters"
    mc = [{"module": "MC_Idle", "quick": "MC_Idle_quick.cfg", "thorough": "MC_Idle.cfg", "actions": ["Row", "Finish"]}]
    n_cases = {"quick": 300, "thorough": 4000}
    rule = ("seeded generator: 1-3 streams, strict FIFO per stream, gaps drawn from {0,1,2,5,29,30,31}, thresholds in {1,2,5,30,31}, kernels whose "
            "launch call lies outside the trace or was dropped (link sentinel 0), stream subsets, random rank; non-trivial iff a gap equals "
            "threshold-1, threshold or 0, or a kernel is unlinked, or a launch starts exactly when the previous kernel ends")
    assumptions = ["WellFormed and strict stream FIFO (no overlap and no two activities of one stream starting at the same instant), re-evaluated by TLC",
                   "kernels are the device rows of category kernel / gpu_memcpy / gpu_memset"]

    def gen_case(self, rng, k, tier):
        cfg = counters_cfg(rng, tier)
        cfg.zero_len_same_start_ok = (k % 4 == 1)      # a zero-length activity may be followed, at the same instant, by the next activity of its stream
        cfg.p_sync = 0.0
        cfg.p_event_sync = 0.0
        if rng.random() < 0.3:      # ranks that use different sets of streams
            cfg.n_ranks = max(cfg.n_ranks, 2)
        case = case_from_cfg(rng, cfg)
        if cfg.zero_len_same_start_ok:
            # two activities of one stream may share a start only if exactly ONE of them has zero length (the order of two zero-length
            # activities at one instant is not defined): draw again otherwise, at most 30 times
            def twins(c):
                seen: Dict[Any, List[int]] = {}
                for r in c["ranks"]:
                    for e in r["events"]:
                        if e.get("pid") == 0 and e.get("ph") == "X" and e.get("cat") in ("kernel", "gpu_memcpy", "gpu_memset"):
                            seen.setdefault((r["rank"], e["args"]["stream"], e["ts"]), []).append(e["dur"])
                return any(len(v) > 2 or (len(v) == 2 and (v[0] == 0) == (v[1] == 0)) for v in seen.values())
            for _ in range(30):
                if not twins(case):
                    break
                case = case_from_cfg(rng, cfg)
            else:
                cfg.zero_len_same_start_ok = False
                case = case_from_cfg(rng, cfg)
        n = len(case["ranks"])
        if rng.random() < 0.3 and n >= 2:
            for r in case["ranks"][1:]:          # move the later ranks' activities of stream 7 to a stream the first rank does not use
                for e in r["events"]:
                    if e.get("pid") == 0 and e.get("args", {}).get("stream") == 7:
                        e["args"]["stream"] = 21
                        e["tid"] = 21
        case["req"] = rng.sample(range(n), rng.randint(1, n))
        case["thr"] = rng.choice([1, 2, 5, 30, 31, 0])        # 0: no gap is "short" (a valid value, not "use the default")
        case["calls"] = [rng.choice(["all", "sub", "empty"]), rng.choice(["all", "sub"])]     # a history of two calls on the same object
        case["subseed"] = rng.randrange(1000)
        case["prefix"] = draw_prefix(rng)
        return case

    def observe(self, case):
        KC = ("kernel", "gpu_memcpy", "gpu_memset")
        with hta.CaseDir("c06") as d:
            ta = write_and_load(case, d)
            req = [r for r in case["req"] if r in ta.t.traces]
            rows = {r: rows_full(ta, r) for r in req}
            own = {r: sorted({x["stream"] for x in rows[r] if x["stream"] != -1 and x["cat"] in KC}) for r in req}
            if not req or any(not own[r] for r in req):
                return {"skip": True}
            obs = {"prop": "C06", "err": "", "thr": case["thr"], "ranks": [], "statsErr": ""}
            rr = random.Random(case["subseed"])
            allstreams = sorted({s for r in req for s in own[r]})
            try:
                for mode in case["calls"]:
                    if mode == "sub":
                        arg = sorted(rr.sample(allstreams, rr.randint(1, len(allstreams))))
                        if any(not set(arg) & set(own[r]) for r in req):
                            arg = None          # a rank without any of the requested streams has nothing to report: keep to the defaults
                    elif mode == "empty":
                        arg = []
                    else:
                        arg = None
                    df, _ = ta.get_idle_time_breakdown(ranks=list(req), streams=None if arg is None else list(arg), visualize=False,
                                                       consecutive_kernel_delay=case["thr"])
                    # beyond the listed property: descriptive statistics of the idle intervals per stream and category (second return value)
                    stats_by_rank: Dict[int, List[Dict[str, Any]]] = {r: [] for r in req}
                    try:
                        _, st = ta.get_idle_time_breakdown(ranks=list(req), streams=None if arg is None else list(arg), visualize=False,
                                                           consecutive_kernel_delay=case["thr"], show_idle_interval_stats=True)
                        if st is not None:
                            for cat_, row in st.iterrows():
                                cnt = hta.ival(row["count"])
                                rec = {"stream": hta.ival(row["stream"]), "cat": str(cat_), "count": cnt, "min": 0, "max": 0, "total": 0}
                                if cnt > 0:
                                    rec.update(min=hta.oval(row["min"]), max=hta.oval(row["max"]), total=hta.scaled(row["mean"] * cnt, 1))
                                if int(row["rank"]) in stats_by_rank:
                                    stats_by_rank[int(row["rank"])].append(rec)
                    except Exception as ex:
                        obs["statsErr"] = hta.exc_str(ex)
                    for r in req:
                        sub = df[df["rank"].eq(r)]
                        out = [{"stream": hta.ival(t[0]), "cat": str(t[1]), "idle": hta.ival(t[2]), "ratio": hta.scaled(t[3], 100) if t[3] == t[3] else 0}
                               for t in sub[["stream", "idle_category", "idle_time", "idle_time_ratio"]].itertuples(index=False)]
                        expect = own[r] if not arg else [s for s in arg if s in own[r]]
                        obs["ranks"].append({"rank": r, "file": file_entries(case, r), "rows": rows[r], "streams": expect, "out": out, "call": mode, "stats": stats_by_rank[r]})
            except Exception as ex:
                obs["err"] = hta.exc_str(ex)
            return obs

    def nontrivial(self, case, obs):
        thr = obs["thr"]
        for rk in obs["ranks"]:
            byid = {x["id"]: x for x in rk["rows"]}
            for s in rk["streams"]:
                ks = sorted((x for x in rk["rows"] if x["stream"] == s and x["cat"] in ("kernel", "gpu_memcpy", "gpu_memset")), key=lambda x: x["ts"])
                for p, k in zip(ks, ks[1:]):
                    gap = k["ts"] - (p["ts"] + p["dur"])
                    if gap in (0, thr - 1, thr) or k["link"] <= 0:
                        return True
                    if k["link"] in byid and byid[k["link"]]["ts"] == p["ts"] + p["dur"]:
                        return True
        return False
