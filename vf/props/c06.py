from .counters import C06

PROP = C06()
