from .callstack import C16

PROP = C16()
