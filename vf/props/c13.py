from .callstack import C13

PROP = C13()
