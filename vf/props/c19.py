"""C19 - a saved critical-path graph restores to an identical graph."""
from __future__ import annotations

import contextlib
import hashlib
import io
import json
import os
import random
import shutil
from typing import Any, Dict, List

from .. import gen, hta, tlc
from ..core import Prop
from .common import write_and_load
from .cp import TYPES, _tk, gen_cp_case, project_graph, project_path, run_analysis


def _h(x: Any) -> str:
    return hashlib.sha1(json.dumps(x, sort_keys=True, default=str).encode()).hexdigest()[:20]


def projection(cp) -> Dict[str, Any]:
    g = project_graph(cp)
    # the event -> (start node, end node) maps are part of the graph object (overlay, attribution and what-if code go through them)
    def _ix(n):
        return None if n is None else int(n.idx)
    g["event_nodes"] = [[int(e)] + [_ix(n) for n in cp.get_nodes_for_event(int(e))] for e in sorted(int(x) for x in cp.trace_df["index"])]
    p = project_path(cp)
    p["pedges"] = sorted(p["pedges"])
    with contextlib.redirect_stdout(io.StringIO()):
        bd = cp.get_critical_path_breakdown()
    rows = []
    if bd is not None:
        for t in bd[["event_idx", "duration", "type", "bound_by", "stream", "pid", "tid", "cat", "s_name"]].itertuples(index=False):
            rows.append([None if t[0] != t[0] else int(t[0]), _tk(t[1]), str(t[2]), str(t[3])] + [None if x != x else int(x) for x in t[4:8]] +
                        [None if (t[8] is None or t[8] != t[8]) else str(t[8])])
    pw = 0
    for a, b in zip(cp.critical_path_nodes, cp.critical_path_nodes[1:]):
        pw += _tk(cp.edges[a, b]["weight"])
    g["edges"] = sorted(g["edges"], key=lambda e: (e["u"], e["v"]))
    return {"g": _h(g), "p": _h(p), "b": _h(sorted(rows, key=lambda r: json.dumps(r))), "pw": int(pw), "n_nodes": len(g["nodes"]), "n_edges": len(g["edges"])}


class C19(Prop):
    id = "C19"
    trace_module = "Trace_Persist"
    mc = [{"module": "MC_Persist", "quick": "MC_Persist_mc.cfg", "thorough": "MC_Persist_mc.cfg", "actions": ["Reweight"]}]
    n_cases = {"quick": 200, "thorough": 2000}
    rule = ("graphs from C08's generator; every case executes one TLC-enumerated history of 5 operations over two save slots (save, restore, "
            "recompute on the restored graph, saving a restored graph again, what-if reweighting of the live graph) on the real objects and "
            "records the digests of (nodes+edges+weights+types+attributions), (path, event set, edge set), the breakdown table and the path "
            "weight after each operation; non-trivial iff the history has >= 2 restores and a recompute or a save of a restored graph")
    assumptions = ["digests are computed by the harness from the projected graph; CSV round trips change dtypes, so the breakdown is compared on its integer / string content"]

    def prepare(self, ctx):
        hists, _ = tlc.enumerate_cases("MC_Persist", "MC_Persist.cfg")
        keep = [h for h in hists if any(s["op"] == "restore" for s in h)]
        random.Random(ctx.seed).shuffle(keep)
        with open(os.path.join(os.environ["VF_SCRATCH"], "c19_hists.json"), "w") as f:
            json.dump(keep[:2000], f)
        ctx.extra_cov["persist_histories_enumerated"] = len(hists)

    def gen_case(self, rng, k, tier):
        case = gen_cp_case(rng, tier)
        if rng.random() < 0.45:
            # ties: several streams finish at the same instant before a device synchronisation, so several longest paths exist and only
            # the stored one is "the" critical path of the saved graph
            from .cp import cp_cfg
            from .common import case_from_cfg
            cfg = cp_cfg(rng, tier)
            cfg.tie_sync, cfg.streams, cfg.n_ranks, cfg.loner = True, rng.choice([(7, 9), (7, 9, 13), (9, 7)]), 1, False
            cfg.n_steps, cfg.p_sync, cfg.p_event_sync, cfg.pre_ops, cfg.p_launch, cfg.post_ops = 0, 0.0, 0.0, rng.choice([2, 3, 4]), 0.8, 1   # nothing is trimmed; no earlier zero-weight waits
            extra = {k: case[k] for k in ("rank", "incl", "zero", "ann", "inst", "iseed")}
            case = case_from_cfg(rng, cfg)
            case.update(extra)
            case["rank"], case["ann"], case["inst"], case["tie"], case["zero"] = 0, "", None, True, False
        elif rng.random() < 0.4:      # glitchy timers: a child may outlast its parent by 1-2 us; the analysis clamps the negative weight to 0
            from .cp import cp_cfg
            from .common import case_from_cfg
            cfg = cp_cfg(rng, tier)
            cfg.p_overhang = 0.3
            cfg.n_ranks = 1
            extra = {k: case[k] for k in ("rank", "incl", "zero", "ann", "inst", "iseed")}
            case = case_from_cfg(rng, cfg)
            case.update(extra)
            case["rank"] = 0
        if rng.random() < 0.4:
            # operator names that shorten to the empty string or read like a missing value once written to CSV
            odd = ["<forward op>", "<unknown>", "(null)", "None", "null", "N/A", "NA", "nan"]
            for rk in case["ranks"]:
                hosts = [e for e in rk["events"] if e.get("cat") == "cpu_op" and e.get("ph") == "X"]
                for e in rng.sample(hosts, min(len(hosts), rng.randint(1, 3))):
                    e["name"] = rng.choice(odd)
        if k % 5 == 4 and not case.get("tie") and all(r["ticks"] == 1 for r in case["ranks"]):
            from .cp import fractional_durations
            fractional_durations(rng, case)          # whole-microsecond starts, quarter-microsecond durations: fractional node times and weights
        path = os.path.join(os.environ.get("VF_SCRATCH", ""), "c19_hists.json")
        hists = json.load(open(path)) if os.path.exists(path) else [[{"op": "save", "s": 1, "t": 0}, {"op": "restore", "s": 1, "t": 0},
                                                                       {"op": "recompute", "s": 1, "t": 0}]]
        case["hist"] = hists[rng.randrange(len(hists))]
        return case

    def observe(self, case):
        from hta.analyzers.critical_path_analysis import restore_cpgraph
        obs: Dict[str, Any] = {"prop": "C19", "err": "", "steps": [], "live0": {"g": "", "p": "", "b": "", "pw": 0}}
        os.environ["CRITICAL_PATH_ADD_ZERO_WEIGHT_LAUNCH_EDGE"] = "1" if case["zero"] else "0"
        from . import cp as _cp
        _cp.U = int(case.get("u", 1))
        with hta.CaseDir("c19") as d:
            ta = write_and_load(case, d, include_last=case["incl"])
            r, ann, inst = run_analysis(ta, case)
            try:
                res = ta.critical_path_analysis(rank=r, annotation=ann, instance_id=inst)
                if res is None or not res[1]:
                    return {"skip": True}
                live = res[0]
            except Exception:
                return {"skip": True}          # the analysis itself is C08's business
            obs["live0"] = projection(live)
            zips: Dict[int, str] = {}
            restored: Dict[int, Any] = {}
            rr = random.Random(case["iseed"])
            nsave = 0
            extracted: List[str] = []
            for st in case["hist"]:
                rec = {"op": st["op"], "s": st["s"], "t": st["t"], "err": "", "obs": {"g": "", "p": "", "b": "", "pw": -1}}
                try:
                    if st["op"] == "save":
                        nsave += 1
                        zips[st["s"]] = live.save(os.path.join(d, f"cp_graph.slot{st['s']}"))         # the same directory name every time the slot is written
                        rec["obs"] = projection(live)
                    elif st["op"] == "restore":
                        restored[st["s"]] = restore_cpgraph(zips[st["s"]], ta.t, r)
                        extracted.append("/tmp/" + zips[st["s"]][:-4].lstrip("/"))
                        rec["obs"] = projection(restored[st["s"]])
                    elif st["op"] == "recompute":
                        ok = restored[st["s"]].critical_path()
                        if not ok:
                            raise RuntimeError("critical_path() returned False on the restored graph")
                        rec["obs"] = projection(restored[st["s"]])
                    elif st["op"] == "save_restored":
                        nsave += 1
                        zips[st["t"]] = restored[st["s"]].save(os.path.join(d, f"cp_graph.slot{st['t']}"))
                        rec["obs"] = projection(restored[st["s"]])
                    elif st["op"] == "reweight":
                        for u, v in list(live.edges):
                            if rr.random() < 0.3:
                                w = live.edges[u, v]["weight"]
                                live.edges[u, v]["weight"] = rr.choice([0, w * 2, w + 3, w // 2])
                        live.critical_path()
                        rec["obs"] = projection(live)
                except Exception as ex:
                    rec["err"] = hta.exc_str(ex)
                obs["steps"].append(rec)
            # the archives' extraction directories under /tmp are deliberately left behind: the next case of this worker saves to the same
            # paths, as a user does who saves a newer graph under the old name (core.main removes the whole mirror tree at the end)
        return obs

    def nontrivial(self, case, obs):
        ops = [s["op"] for s in obs["steps"]]
        return ops.count("restore") >= 2 and ("recompute" in ops or "save_restored" in ops)

    def fingerprint(self, case, obs):
        return _h([obs["live0"], [(s["op"], s["s"], s["t"]) for s in obs["steps"]]])


PROP = C19()
