"""C07 - communication/computation overlap is the exact time ratio."""
from __future__ import annotations

from typing import Any, Dict

from .. import gen, hta
from ..core import Prop
from .c04 import breakdown_cfg, maybe_fractional
from .common import file_entries, case_from_cfg, draw_prefix, frame_rows, write_and_load


class C07(Prop):
    id = "C07"
    trace_module = "Trace_Breakdown"
    mc = [{"module": "MC_Breakdown", "quick": "MC_Breakdown_quick.cfg", "thorough": "MC_Breakdown.cfg",
           "actions": ["MergeRow", "EndPass", "SweepRow", "Finish"]}]
    n_cases = {"quick": 300, "thorough": 4000}
    rule = ("seeded program-simulation generator, communication-heavy mixes on 1-3 streams; non-trivial iff a communication "
            "and a computation activity of a rank share a start or end instant, or one of them has zero length; distinct = "
            "distinct projected inputs+outputs")
    assumptions = ["inputs are the rows of the loaded frames; a device activity is a row with stream != -1",
                   "the ratio is checked when the communication time is positive (otherwise the quotient is undefined)"]

    def gen_case(self, rng, k, tier):
        for _ in range(100):
            cfg = breakdown_cfg(rng, tier)
            cfg.p_comm = rng.choice([0.3, 0.5, 0.7])
            cfg.p_mem = 0.1
            if len(cfg.streams) == 1 and rng.random() < 0.7:
                cfg.streams = (7, 9)
            case = case_from_cfg(rng, cfg)
            if all(any(e.get("name") in gen.K_COMM for e in r["events"]) for r in case["ranks"]):
                maybe_fractional(rng, case, k)
                case["prefix"] = draw_prefix(rng)
                return case
        raise RuntimeError("could not generate communication kernels on every rank")

    def observe(self, case: Dict[str, Any]) -> Dict[str, Any]:
        with hta.CaseDir("c07") as d:
            ta = write_and_load(case, d)
            ranks = sorted(ta.t.traces)
            rows = {r: frame_rows(ta, r, u=int(case.get("u", 1))) for r in ranks}
            if any(not any(x["name"] in gen.K_COMM and x["stream"] != -1 for x in rows[r]) for r in ranks):
                return {"skip": True}
            obs = {"prop": "C07", "err": "", "ranks": []}
            try:
                df = ta.get_comm_comp_overlap(visualize=False)
            except Exception as ex:
                obs["err"] = hta.exc_str(ex)
                return obs
            for _, row in df.iterrows():
                r = int(row["rank"])
                obs["ranks"].append({"rank": r, "file": file_entries(case, r), "rows": rows[r], "pctg": hta.scaled(row["comp_comm_overlap_pctg"], 100)})
            return obs

    def nontrivial(self, case, obs) -> bool:
        for rk in obs["ranks"]:
            comm = [(x["ts"], x["ts"] + x["dur"]) for x in rk["rows"] if x["name"] in gen.K_COMM]
            comp = [(x["ts"], x["ts"] + x["dur"]) for x in rk["rows"] if x["name"] in gen.K_COMP]
            for a in comm:
                for b in comp:
                    if a[0] == a[1] or b[0] == b[1] or set(a) & set(b):
                        return True
        return False


PROP = C07()
