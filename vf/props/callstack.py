"""C03 (call stack), C13 (call-graph attributes), C16 (frequent kernel sequences)."""
from __future__ import annotations

import random
from typing import Any, Dict, List

from .. import gen, hta
from ..core import Prop
from .common import file_entries, case_from_cfg, draw_prefix, write_and_load


# ----------------------------------------------------------------------------- dense laminar families
def gen_family(rng: random.Random, n: int, T: int, u: int = 1) -> List[Dict[str, int]]:
    """Random properly nested family of n spans on the grid 0..T with dense ties: shared starts/ends, identical spans,
    touching siblings, zero-duration events at starts / interiors / ends / touching instants.  With u > 1 positions are in ticks of
    1/u microsecond; every span STARTS on a whole microsecond (multiple of u) and may end on any tick (integer ts, fractional dur)."""
    spans: List[List[int]] = []

    def up(x: int) -> int:
        return -(-x // u) * u

    def fill(lo: int, hi: int, budget: int) -> int:
        # place siblings left to right inside [lo, hi] (ticks); lo is a multiple of u
        t = lo
        used = 0
        while used < budget and t <= hi:
            r = rng.random()
            if r < 0.25:
                spans.append([t, 0])      # zero-duration event at t
                used += 1
                if rng.random() < 0.5:
                    t += rng.choice([0, 0, u])
                continue
            if t == hi:
                break
            end = rng.randint(t + 1, hi) if rng.random() < 0.6 else hi
            spans.append([t, end - t])
            used += 1
            if used < budget and rng.random() < 0.7:
                used += fill(t, end, rng.randint(1, budget - used))
            t = up(end) + rng.choice([0, 0, 0, u])
        return used

    for _ in range(50):
        del spans[:]
        fill(0, T * u, n)
        if len(spans) >= min(n, 3):
            break
    rng.shuffle(spans)
    return [{"ts": s[0], "dur": s[1]} for s in spans]


def family_case(rng: random.Random, n: int, T: int, u: int = 1) -> Dict[str, Any]:
    fam = gen_family(rng, n, T, u)
    # with fractional durations also a present-day epoch offset: float64 resolves 0.25 us there, so anything that adds a fractional
    # duration to an unshifted timestamp is rounded
    base = rng.choice([0, 1000, 10 ** 6]) if u == 1 else rng.choice([1000, 1_700_000_000_000_000])
    pid = 4000
    events = []
    for k, s in enumerate(fam):
        events.append({"ph": "X", "cat": "cpu_op", "name": rng.choice(gen.HOST_OPS), "pid": pid, "tid": pid,
                       "ts": base + s["ts"] // u, "dur": s["dur"] if u == 1 else (s["dur"] // u if s["dur"] % u == 0 else s["dur"] / u),
                       "args": {"External id": k + 1}})
    meta = {"schemaVersion": 1, "distributedInfo": {"rank": 0}, "traceName": "fam.json"}
    rt = gen.RankTrace(rank=0, events=events, meta=meta, fmt="json", ticks=1, base=base)
    return {"ranks": [rt.__dict__], "u": u}


def _proj_nodes(nodes: Dict[int, Any], ids: set) -> List[Dict[str, int]]:
    out = []
    for idx, node in nodes.items():
        if int(idx) in ids:
            out.append({"id": int(idx), "par": int(node.parent), "dep": int(node.depth)})
    return out


class C03(Prop):
    id = "C03"
    trace_module = "Trace_CallStack"
    # the order both builders use since fix 55deb4b (a sort key): all families incl. the shapes on which the pairwise comparators fail
    mc = [{"module": "MC_CallStack", "quick": "MC_CallStack_key_quick.cfg", "thorough": "MC_CallStack_key.cfg", "actions": ["Step", "Finish"]},
          # the pairwise comparators are still in the code (is_events_sorted re-checks neighbours with _less_than): their model on the shapes where they are consistent
          {"module": "MC_CallStack", "quick": "MC_CallStack_new_quick.cfg", "thorough": "MC_CallStack_new_quick.cfg", "actions": ["Step", "Finish"]}]
    n_cases = {"quick": 400, "thorough": 5000}
    rule = ("half of the cases are dense random laminar families (4-14 spans on a grid 0..5-9: shared starts/ends, identical spans, touching "
            "siblings, zero-duration events everywhere, ids shuffled), half are program-simulated traces with 1-3 host threads; each thread's "
            "family goes through both builders directly and through CallGraph; non-trivial iff two events share an endpoint instant or a "
            "zero-duration event exists")
    assumptions = ["spans of a thread are properly nested (re-evaluated by TLC); negative parent ids mean the root",
                   "for a zero-duration event any parent whose closed span contains its instant is accepted, the root only if no positive-duration event does"]

    def gen_case(self, rng, k, tier):
        if k % 2 == 0:
            n = rng.randint(3, 14 if tier == "thorough" else 10)
            # every fifth family: whole-microsecond starts with durations in quarter microseconds (no rounding happens on such files)
            case = family_case(rng, n, rng.randint(3, 9), u=(4 if k % 20 == 8 else 8) if k % 10 == 8 else 1)
            case["kind"] = "family"
            return case
        cfg = gen.GenCfg(n_ranks=rng.choice([1, 1, 2]), n_steps=rng.choice([0, 1, 2]), p_launch=rng.choice([0.2, 0.5]), p_sync=rng.choice([0, 0.1]),
                         adv=rng.choice([(0, 0, 1), (0, 0, 1, 1, 2, 3), (0, 1, 2)]), max_depth=rng.choice([2, 3, 5]),
                         n_extra_threads=rng.choice([0, 0, 1, 2]), base=rng.choice([0, 1000]), extras=rng.random() < 0.5,
                         streams=rng.choice([(7,), (7, 9)]))
        cfg.same_tid_process = cfg.n_extra_threads >= 1 and rng.random() < 0.5     # two processes whose threads share a tid
        if rng.random() < 0.4:          # an autograd thread whose top-level operators the call graph re-attaches beneath the main thread's annotation
            cfg.bwd_thread, cfg.n_steps, cfg.bwd_annotation = True, rng.choice([1, 2]), rng.random() < 0.5
        case = case_from_cfg(rng, cfg)
        case["kind"] = "program"
        return case

    def observe(self, case):
        import pandas as pd
        from hta.common import call_stack as old_cs
        from hta.common import trace_call_stack as new_cs
        from hta.common.trace import get_cpu_gpu_correlation
        from hta.common.trace_call_graph import CallGraph
        obs = {"prop": "C03", "err": "", "threads": [], "cgErr": ""}
        with hta.CaseDir("c03") as d:
            ta = write_and_load(case, d)
            threads = []
            for rank in sorted(ta.t.traces):
              df = ta.t.get_trace(rank)
              host = df[df["stream"].eq(-1) & df["pid"].ne(0)]
              for (pid, tid), dft in host.groupby(["pid", "tid"]):
                u = int(case.get("u", 1))
                ev = [{"id": int(i), "ts": hta.ival(float(t) * u), "dur": hta.ival(float(du) * u)} for i, t, du in zip(dft["index"], dft["ts"], dft["dur"])]
                ids = {e["id"] for e in ev}
                th = {"rank": int(rank), "pid": int(pid), "tid": int(tid), "events": ev, "new": [], "newErr": "", "old": [], "oldErr": "", "cg": [], "cgn": []}
                full = df[df["pid"].eq(pid) & df["tid"].eq(tid)].copy()
                try:
                    csg = new_cs.CallStackGraph(full.copy(), new_cs.CallStackIdentity(int(rank), int(pid), int(tid)), get_cpu_gpu_correlation(df),
                                                df.copy(), ta.t.symbol_table, save_call_stack_to_df=False)
                    th["new"] = _proj_nodes(csg.get_nodes(), ids)
                except BaseException as ex:
                    th["newErr"] = hta.exc_str(ex)
                try:
                    ocsg = old_cs.CallStackGraph(full.copy(), old_cs.CallStackIdentity(int(rank), int(pid), int(tid)))
                    th["old"] = _proj_nodes(ocsg.get_nodes(), ids)
                except BaseException as ex:
                    th["oldErr"] = hta.exc_str(ex)
                threads.append((th, ids))
            try:
                cg = CallGraph(ta.t)                       # one call graph over all ranks
                for th, ids in threads:
                    out = cg.trace_data.get_trace(th["rank"])
                    sub = out.loc[sorted(ids)]
                    th["cg"] = [{"id": int(i), "par": hta.ival(p), "dep": hta.ival(dp)} for i, p, dp in zip(sub["index"], sub["parent"], sub["depth"])]
                    # the node map of that rank's call stacks (CallStackGraph.get_nodes()), read after every rank has been built
                    nodes = {}
                    for csi, stack in cg.rank_to_stacks[th["rank"]].items():
                        if csi.pid == th["pid"] and csi.tid == th["tid"]:
                            nodes = stack.get_nodes()
                    th["cgn"] = _proj_nodes(nodes, ids)
            except BaseException as ex:
                obs["cgErr"] = hta.exc_str(ex)
            obs["threads"] = [th for th, _ in threads]
        return obs

    # ---- spec -> code: every pair of the comparators' small domain, transcription vs real function
    def extra(self, ctx):
        from .. import tlc
        import numpy as np
        hta.setup()
        from hta.common import call_stack as old_cs
        from hta.common import trace_call_stack as new_cs
        pairs, _ = tlc.enumerate_cases("MC_Comparators", "MC_Comparators.cfg")
        drift = []
        for p in pairs:
            x, y = p["x"], p["y"]
            if x == y:
                continue
            arr = lambda e: np.array([e["id"], e["dur"], -1 if e["kind"] == "open" else 1, e["time"]])
            ev = lambda e: old_cs.Event(e["id"], e["time"], e["dur"], 1 if e["kind"] == "open" else -1)
            real_new = bool(new_cs._less_than(arr(x), arr(y)))
            c = old_cs.compare_events(ev(x), ev(y))
            real_old = -1 if c < 0 else 1 if c > 0 else 0
            if real_new != bool(p["lessNew"]) or real_old != int(p["cmpOld"]):
                drift.append((x, y, real_new, p["lessNew"], real_old, p["cmpOld"]))
        # ---- the key order: every family of the small model through sort_events and through both builders; the endpoint order and the
        # tree must be the model's
        fams, _ = tlc.enumerate_cases("MC_CallStack", "MC_CallStack_key_emit.cfg", timeout=1800)
        import pandas as pd
        from hta.common.trace import get_cpu_gpu_correlation
        from hta.common.trace_symbol_table import TraceSymbolTable
        kdrift = []
        rr = random.Random(ctx.seed)
        for f in fams:
            evs = []
            for sp in f["fam"]:
                evs.append([sp["id"], sp["dur"], -1, sp["ts"]])
                evs.append([sp["id"], sp["dur"], 1, sp["ts"] + sp["dur"]])
            rr.shuffle(evs)
            arr = np.array(evs)
            new_cs.sort_events(arr)
            got = [[int(r[0]), "open" if r[2] == -1 else "close"] for r in arr.tolist()]
            want = [[o["id"], o["kind"]] for o in f["order"]]
            df = pd.DataFrame({"index": [sp["id"] for sp in f["fam"]], "ts": [sp["ts"] for sp in f["fam"]], "dur": [sp["dur"] for sp in f["fam"]],
                               "stream": -1, "index_correlation": -1, "pid": 1, "tid": 1})
            df = df.sample(frac=1.0, random_state=rr.randrange(10 ** 6)).set_index("index", drop=False)
            old_par = {int(k): int(v.parent) for k, v in old_cs.CallStackGraph(df.copy(), old_cs.CallStackIdentity(0, 1, 1)).get_nodes().items() if int(k) > 0}
            want_par = {k + 1: (p if p > 0 else -1) for k, p in enumerate(f["par"])}
            old_par = {k: (p if p > 0 else -1) for k, p in old_par.items()}
            if got != want or old_par != want_par:
                kdrift.append((f["fam"], got, want, old_par, want_par))
        ctx.replayed += len(pairs) + len(fams)
        ctx.extra_cov["key_order_families_replayed"] = len(fams)
        ctx.extra_cov["key_order_drift"] = len(kdrift)
        if kdrift:
            print(f"SPEC-DRIFT C03: sort_events / the old builder disagree with CallStack.tla's key order on {len(kdrift)} of {len(fams)} families; first: {kdrift[0]}")
            ctx.notes.append(f"SPEC-DRIFT: key order differs between CallStack.tla and the code on {len(kdrift)} families")
        ctx.extra_cov["comparator_pairs_replayed"] = len(pairs)
        ctx.extra_cov["comparator_transcription_drift"] = len(drift)
        if drift:
            print(f"SPEC-DRIFT C03: comparator transcriptions disagree with the code on {len(drift)} of {len(pairs)} endpoint pairs; first: {drift[0]}")
            ctx.notes.append(f"SPEC-DRIFT: {len(drift)} comparator pairs differ between CallStack.tla and the code")

    def nontrivial(self, case, obs):
        for th in obs["threads"]:
            pts = []
            for e in th["events"]:
                if e["dur"] == 0:
                    return True
                pts += [e["ts"], e["ts"] + e["dur"]]
            if len(set(pts)) < len(pts):
                return True
        return False


# ----------------------------------------------------------------------------- C13
STACK_COLS = ["parent", "depth", "height", "num_kernels", "kernel_dur_sum", "first_kernel_start", "last_kernel_end", "kernel_span"]


def rows_with_stack(df, sym: List[str], extra=None) -> List[Dict[str, Any]]:
    cols = ["index", "ts", "dur", "pid", "tid", "stream", "index_correlation", "name", "cat"] + STACK_COLS + ["correlation"]
    out = []
    for t in df[cols].itertuples(index=False):
        name = sym[int(t[7])]
        r = {"id": hta.ival(t[0]), "ts": hta.ival(t[1]), "dur": hta.ival(t[2]), "pid": hta.ival(t[3]), "tid": hta.ival(t[4]),
             "stream": hta.ival(t[5]), "link": hta.ival(t[6]), "name": name, "cat": sym[int(t[8])],
             "parent": hta.oval(t[9]), "depth": hta.oval(t[10]), "height": hta.oval(t[11]), "nk": hta.oval(t[12]),
             "ksum": hta.oval(t[13]), "kfirst": hta.oval(t[14]), "klast": hta.oval(t[15]), "kspan": hta.oval(t[16]), "corr": hta.ival(t[17]),
             "step": name.startswith("ProfilerStep#"), "bwdann": name.startswith("## backward ##"), "auto": "autograd::" in name}
        if extra:
            r.update(extra(r))
        out.append(r)
    return out


class C13(Prop):
    id = "C13"
    trace_module = "Trace_CallStack"
    mc = [{"module": "MC_CallGraphAttrs", "quick": "MC_CallGraphAttrs_quick.cfg", "thorough": "MC_CallGraphAttrs.cfg", "actions": ["Visit", "Finish"]}]
    n_cases = {"quick": 200, "thorough": 3000}
    rule = ("program-simulated traces loaded through TraceAnalysis (non-zero epoch offset, so shifted timestamps), 1-3 host threads, optional "
            "autograd thread with/without '## backward ##' annotations, launches nested at different depths, missing launches/kernels, 1-2 ranks; "
            "non-trivial iff base != 0 and some host event has >= 2 kernel descendants at different depths")
    assumptions = ["WellFormed rows (re-evaluated by TLC); depth, height and the kernel aggregates are checked against the tree given by the "
                   "returned parent column; host parents against the declarative tree of C03 (zero-duration events not asserted here)",
                   "name classes (starts with ProfilerStep#, starts with '## backward ##', contains autograd::) are computed by the harness"]

    def gen_case(self, rng, k, tier):
        cfg = gen.GenCfg(n_ranks=rng.choice([1, 1, 2]), n_steps=rng.choice([0, 1, 2, 3]), p_launch=rng.choice([0.4, 0.7]),
                         p_sync=rng.choice([0, 0.1]), p_mem=0.2, adv=rng.choice([(0, 0, 1, 1, 2, 3), (0, 1, 2), (1, 2, 3)]),
                         max_depth=rng.choice([2, 3, 5]), n_extra_threads=rng.choice([0, 0, 1]), bwd_thread=rng.random() < 0.6,
                         bwd_annotation=rng.random() < 0.5, base=rng.choice([1000, 10 ** 6, 0]), streams=rng.choice([(7,), (7, 9)]),
                         p_drop_kernel=rng.choice([0, 0.1]), p_drop_launch=rng.choice([0, 0.1]), unlinked_head=rng.choice([0, 1]))
        cfg.same_tid_process = cfg.n_extra_threads >= 1 and rng.random() < 0.5
        cfg.bwd_end_tie = rng.random() < 0.5
        cfg.corr_base = rng.choice([100, 100, 0])           # correlation ids may start at 0
        if cfg.n_ranks > 1 and rng.random() < 0.5:
            cfg.per_rank = {1: {"bwd_annotation": not cfg.bwd_annotation}}       # ranks of one job instrumented differently
        if k % 40 in (7, 23, 31):
            cfg.pad_entries = {7: 33000, 23: 70000, 31: 300}[k % 40]               # event ids beyond 15 / 16 / 8 bits
        case = case_from_cfg(rng, cfg)
        case["nstacks"] = 4
        case["prefix"] = draw_prefix(rng)
        return case

    def observe(self, case):
        from hta.common.trace_call_graph import CallGraph
        obs = {"prop": "C13", "err": "", "ranks": []}
        with hta.CaseDir("c13") as d:
            ta = write_and_load(case, d, include_last=True)
            try:
                ranks = sorted(ta.t.traces)
                cg = CallGraph(ta.t, ranks=ranks)
                sym = ta.t.symbol_table.get_sym_table()
                rr = random.Random(case["id"])
                for r in ranks:
                    df = cg.trace_data.get_trace(r)
                    rows = rows_with_stack(df, sym)
                    hosts = [x["id"] for x in rows if x["stream"] == -1 and x["pid"] != 0]
                    stacks = []
                    for idx in rr.sample(hosts, min(len(hosts), case["nstacks"])):
                        sdf = cg.get_stack_of_node(idx, rank=r, skip_ancestors=True)
                        stacks.append({"id": idx, "ids": [int(i) for i in sdf["index"].tolist()]})
                    obs["ranks"].append({"rank": r, "file": file_entries(case, r), "rows": rows, "stacks": stacks})
            except BaseException as ex:
                obs["err"] = hta.exc_str(ex)
        return obs

    def nontrivial(self, case, obs):
        if case["ranks"][0]["base"] == 0:
            return False
        for rk in obs["ranks"]:
            byid = {x["id"]: x for x in rk["rows"]}
            for x in rk["rows"]:
                if x["stream"] == -1 and x["nk"] >= 2:
                    depths = set()
                    for k in rk["rows"]:
                        if k["stream"] > 0 and k["link"] > 0:
                            p, seen = k, 0
                            while p["parent"] in byid and seen < 50:
                                p = byid[p["parent"]]
                                seen += 1
                                if p["id"] == x["id"]:
                                    depths.add(k["depth"])
                                    break
                    if len(depths) >= 2:
                        return True
        return False


# ----------------------------------------------------------------------------- C16
class C16(Prop):
    id = "C16"
    trace_module = "Trace_CallStack"
    mc = [{"module": "MC_CallGraphAttrs", "quick": "MC_CallGraphAttrs_quick.cfg", "thorough": "MC_CallGraphAttrs.cfg", "actions": ["Visit", "Finish"]}]
    n_cases = {"quick": 150, "thorough": 2000}
    rule = ("program-simulated traces with repeated operator names nested at several depths, launches beneath them on 1-2 streams; every operator "
            "name occurring in the trace x min_pattern_len in {1,2,3} x top_k in {1,5} is a candidate call, one drawn per case; non-trivial iff the "
            "operator name occurs at two depths")
    assumptions = ["WellFormed rows; operator names are not substrings of kernel names; the device activities beneath one instance have pairwise "
                   "distinct start times (otherwise 'start-time order' is ambiguous) - both re-evaluated by TLC",
                   "instances, depth and kernel descendants are recomputed from the parent column of the call graph (C13 binds that column); "
                   "the substring match name-contains-operator is computed by the harness"]

    def gen_case(self, rng, k, tier):
        cfg = gen.GenCfg(n_ranks=rng.choice([1, 2, 2]), n_steps=rng.choice([0, 1, 2]), p_launch=rng.choice([0.5, 0.8]), p_mem=0.15, p_sync=0.0,
                         adv=(1, 1, 2, 3), max_depth=rng.choice([3, 5]), max_children=rng.choice([3, 4]), ops_per_step=(2, 4),
                         kdelay=(1, 2, 3), kgap=(1, 2, 5), kdur=(1, 2, 3) if k % 3 else (0, 0, 1, 2), base=rng.choice([0, 1000]), streams=rng.choice([(7,), (7, 9)]),
                         pre_ops=2, post_ops=2, unlinked_head=rng.choice([0, 1, 2]), p_drop_launch=rng.choice([0.0, 0.15]),
                         p_unlisted_launch=rng.choice([0.0, 0.1]), n_extra_threads=rng.choice([0, 0, 1]), python_functions=rng.random() < 0.3,
                         p_launch_after_op=rng.choice([0.0, 0.3]))      # a worker thread: the same operator
                                                                                                                 # names at another depth
        if cfg.n_ranks > 1 and rng.random() < 0.5:
            # a small first rank: its vocabulary is (usually) a strict subset of the other rank's, so the job's symbol table has the size
            # of that rank's own table but another order
            cfg.per_rank = {0: {"ops_per_step": (1, 1), "pre_ops": 1, "post_ops": 0, "max_depth": 2, "max_children": 2}}
        case = case_from_cfg(rng, cfg)
        # call history on one TraceAnalysis object: the ranks asked for, in order; the LAST call is the one that is validated
        n = len(case["ranks"])
        case["calls"] = [0] if n == 1 else rng.choice([[0], [1], [0, 1], [1, 0], [0, 1, 0], [0, 1, 0], [0, 1, 0], [1, 0, 1], [0, 1, 1, 0]])
        last = case["calls"][-1]
        names = sorted({e["name"] for e in case["ranks"][last]["events"] if e.get("cat") == "cpu_op"})
        case["op"] = rng.choice(names)
        if rng.random() < 0.25 and len(names) >= 2:
            # operator names with characters that mean something in a regular expression: the query is a plain substring
            special = rng.choice(["Optimizer.step#SGD.step", "enumerate(DataLoader)#_SingleProcessDataLoaderIter.__next__"])
            x, y = rng.sample(names, 2)
            for rk in case["ranks"]:
                for e in rk["events"][1:]:
                    if e.get("cat") == "cpu_op" and e["name"] == x:
                        e["name"] = special
                    elif e.get("cat") == "cpu_op" and e["name"] == y and special.startswith("Optimizer"):
                        e["name"] = "Optimizer_step#SGD_step"       # a different operator that the pattern would match as a regex
            if any(e.get("name") == special for e in case["ranks"][last]["events"]):
                case["op"] = special
        case["minLen"] = rng.choice([1, 2, 3])
        case["topk"] = rng.choice([1, 5])
        case["prefix"] = draw_prefix(rng)
        return case

    def observe(self, case):
        obs = {"prop": "C16", "err": "", "minLen": case["minLen"], "rows": [], "out": [], "file": []}
        with hta.CaseDir("c16") as d:
            ta = write_and_load(case, d, include_last=True)
            try:
                os_out = d + "/out"
                import os
                os.makedirs(os_out, exist_ok=True)
                calls = [r for r in case.get("calls", [0]) if r in ta.t.traces] or [sorted(ta.t.traces)[0]]
                for rk in calls:
                    res = ta.get_frequent_cuda_kernel_sequences(operator_name=case["op"], output_dir=os_out, min_pattern_len=case["minLen"],
                                                                rank=rk, top_k=case["topk"], visualize=False)
                rk = calls[-1]
                sym = ta.t.symbol_table.get_sym_table()
                op = case["op"]
                df0 = ta.t.get_trace(rk)
                if "parent" not in df0.columns:          # the call returned before building the call graph
                    from hta.common.trace_call_graph import CallGraph
                    CallGraph(ta.t, ranks=[rk])
                    df0 = ta.t.get_trace(rk)
                obs["rows"] = rows_with_stack(df0, sym, extra=lambda r: {"m": op in r["name"]})
                obs["file"] = file_entries(case, rk)
                starts = [x["ts"] for x in obs["rows"] if x["stream"] > 0 and x["link"] > 0]
                if len(set(starts)) != len(starts):
                    return {"skip": True}                # 'start-time order' would be ambiguous
                if len(res):
                    for t in res[["pattern", "count", "GPU kernel duration (us)", "CPU op duration (us)"]].itertuples(index=False):
                        obs["out"].append({"pattern": str(t[0]).split("|"), "count": hta.ival(t[1]), "gpu": hta.ival(t[2]), "cpu": hta.ival(t[3])})
            except BaseException as ex:
                obs["err"] = hta.exc_str(ex)
        return obs

    def nontrivial(self, case, obs):
        return len({x["depth"] for x in obs["rows"] if x.get("m")}) >= 2
