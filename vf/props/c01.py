"""C01 - loaded events are a faithful, uniformly time-shifted image of the trace file."""
from ..core import Prop
from .load import gen_load_case, observe_load


class C01(Prop):
    id = "C01"
    trace_module = "Trace_Load"
    mc = [{"module": "MC_Load", "quick": "MC_Load_quick.cfg", "thorough": "MC_Load.cfg", "actions": ["Align", "Trim", "Index"]}]
    n_cases = {"quick": 200, "thorough": 3000}
    rule = ("seeded generator: 1-4 ranks, mixed .json/.json.gz, integer or k/8 (k/4 at epoch 1.7e15) fractional timestamps, epoch offset in "
            "{0,7,1e3,1e6,1.7e15}, metadata/flow/instant/Trace-span entries interleaved, file order shuffled; parse-only (sequential and "
            "process pool) and full load; non-trivial iff base != 0 and the file has non-complete entries and (fractional timestamps or >= 2 ranks)")
    assumptions = ["decoding of names/categories goes through the real symbol table; JSON canonicalisation and base subtraction are done by the harness with exact integer/Fraction arithmetic",
                   "after a full load of a trace with >= 2 profiler steps only 'rows are a subset of the image' is asserted here; which rows are kept is C12"]

    def gen_case(self, rng, k, tier):
        return gen_load_case(rng, tier, "C01")

    def observe(self, case):
        return observe_load(case, "C01")

    def nontrivial(self, case, obs):
        nonc = any(e["kind"] != "X" for f in obs["files"] for e in f["entries"])
        return bool(case["ranks"][0]["base"] != 0 and nonc and (obs["u"] > 1 or len(obs["files"]) >= 2))


PROP = C01()
