"""C01 - loaded events are a faithful, uniformly time-shifted image of the trace file."""
from ..core import Prop
from .load import gen_load_case, observe_load


class C01(Prop):
    id = "C01"
    trace_module = "Trace_Load"
    mc = [{"module": "MC_Load", "quick": "MC_Load_quick.cfg", "thorough": "MC_Load.cfg", "actions": ["Align", "Trim", "Index"]},
          {"module": "MC_Sessions", "quick": "MC_Sessions.cfg", "thorough": "MC_Sessions.cfg", "actions": []}]
    n_cases = {"quick": 200, "thorough": 3000}
    rule = ("seeded generator: 1-4 ranks, mixed .json/.json.gz, integer or k/8 (k/4 at epoch 1.7e15) fractional timestamps, epoch offset in "
            "{0,7,1e3,1e6,1.7e15}, metadata/flow/instant/Trace-span entries interleaved, file order shuffled; parse-only (sequential and "
            "process pool) and full load; non-trivial iff base != 0 and the file has non-complete entries and (fractional timestamps or >= 2 ranks)")
    assumptions = ["decoding of names/categories goes through the real symbol table; JSON canonicalisation and base subtraction are done by the harness with exact integer/Fraction arithmetic",
                   "after a full load of a trace with >= 2 profiler steps only 'rows are a subset of the image' is asserted here; which rows are kept is C12"]

    def gen_case(self, rng, k, tier):
        return gen_load_case(rng, tier, "C01", k)

    def observe(self, case):
        return observe_load(case, "C01")

    # ---- the session model (spec/Session.tla): histories of public calls on one object; after every call the loader's columns must be
    # what they were after loading (unless the model says the frames were re-parsed) and the derived columns must be the model's
    def extra(self, ctx):
        import json as _json
        import random as _random
        from concurrent.futures import ProcessPoolExecutor
        from .. import hta, tlc
        hists, _ = tlc.enumerate_cases("MC_Session", "MC_Session.cfg")
        rr = _random.Random(ctx.seed)
        rr.shuffle(hists)
        n = 120 if ctx.tier == "quick" else 1500
        jobs = [(ctx.seed, k, h) for k, h in enumerate(hists[:n])]
        with ProcessPoolExecutor(max_workers=16, initializer=hta.setup) as ex:
            pairs = list(ex.map(_session_job, jobs, chunksize=4))
        ctx.validate_pairs(pairs, module="Trace_Session")
        ctx.validated -= len(pairs)
        ctx.replayed += len(pairs)
        ctx.extra_cov["session_histories_replayed"] = len(pairs)
        ctx.extra_cov["session_histories_in_model"] = len(hists)

    def nontrivial(self, case, obs):
        if obs.get("prop") == "SESSION":
            return len({s["op"] for s in obs["steps"]}) >= 2
        nonc = any(e["kind"] != "X" for f in obs["files"] for e in f["entries"])
        return bool(case["ranks"][0]["base"] != 0 and nonc and (obs["u"] > 1 or len(obs["files"]) >= 2))


PROP = C01()


def _session_job(arg):
    import random
    from .. import gen, hta, session
    from .common import case_from_cfg, write_and_load
    seed, k, hist = arg
    rng = random.Random(f"{seed}/session/{k}")
    cfg = gen.GenCfg(n_ranks=rng.choice([1, 2]), n_steps=rng.choice([1, 2, 3]), p_launch=0.6, p_mem=0.3, p_comm=0.3, p_sync=rng.choice([0, 0.1]),
                     streams=rng.choice([(7,), (7, 9)]), max_children=2, base=rng.choice([0, 1000]), gpu_annotations=rng.random() < 0.5,
                     zero_len_same_start_ok=False)
    case = case_from_cfg(rng, cfg)
    case["id"] = f"SESSION-{seed}-{k}"
    case["hist"] = hist
    obs = {"id": case["id"], "prop": "SESSION", "err": "", "base0": "", "steps": []}
    with hta.CaseDir("sess") as d:
        try:
            ta = write_and_load(case, d)
            session.note_loader_columns(ta)
            obs["base0"] = session.base_digest(ta)
            for op in hist:
                err = session.apply(ta, [op], d)[0]
                obs["steps"].append({"op": op, "err": "", "callerr": err, "cols": session.derived_cols(ta), "base": session.base_digest(ta)})
        except BaseException as ex:
            obs["err"] = hta.exc_str(ex)
    return case, obs
