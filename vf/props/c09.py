from .cp import C09

PROP = C09()
