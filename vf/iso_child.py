"""Child process of the isolation check: a fresh interpreter that only ever creates ONE TraceAnalysis object on one file and makes the
given calls on it; prints one JSON line with the digest of what each call returned."""
from __future__ import annotations

import json
import os
import sys


def main() -> None:
    d, fname, tag, ops = sys.argv[1], sys.argv[2], sys.argv[3], json.loads(sys.argv[4])
    sys.path.insert(0, os.environ.get("VF_REPO", "/repo"))
    sys.path.insert(0, os.path.dirname(os.path.dirname(os.path.abspath(__file__))))
    from vf import hta, session
    hta.setup()
    out = {"err": "", "steps": [], "cols": []}
    try:
        from hta.trace_analysis import TraceAnalysis
        ta = TraceAnalysis(trace_files={0: fname}, trace_dir=d)
        session.note_loader_columns(ta)
        out["steps"] = session.run_ops(ta, ops, os.path.join(d, "solo_" + tag))
        out["cols"] = session.derived_cols(ta)
    except BaseException as ex:
        out["err"] = hta.exc_str(ex)
    print("@@ISO " + json.dumps(out))


if __name__ == "__main__":
    main()
