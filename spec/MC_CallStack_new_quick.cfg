SPECIFICATION Spec
CONSTANTS
  N = 4
  T = 3
  Builder = "new"
  ExcludeTouch = TRUE
  ExcludeZeroPairs = FALSE
INVARIANT TotalOrder
INVARIANT Sortable
INVARIANT LIFO
INVARIANT TreeOK
CHECK_DEADLOCK FALSE
