SPECIFICATION Spec
CONSTANTS
  N = 5
  Weights = {0, 2}
  Fallback = TRUE
INVARIANT RelaxIsMax
INVARIANT WalkBounded
INVARIANT ReportedIsPath
INVARIANT ReportedIsOptimal
CHECK_DEADLOCK FALSE
