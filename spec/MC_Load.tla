------------------------------- MODULE MC_Load -------------------------------
(***************************************************************************)
(* The loader pipeline as a state machine, one action per stage of         *)
(* Trace.load_traces():                                                    *)
(*   Parse(k)   any rank order: inward rounding, end := ts + dur, links,   *)
(*              iteration numbers                                          *)
(*   Align      min_ts := earliest start over all ranks; shift ts (and,    *)
(*              iff ShiftEnd, the end column)                              *)
(*   Trim       iff the trace set names >= 2 profiler steps: keep host     *)
(*              rows before the last step (or up to its end) and the       *)
(*              device rows launched by kept host rows                     *)
(*   Index      frames indexed by event id                                 *)
(* ShiftEnd = FALSE is the behaviour of the pinned tree before the         *)
(* "shift the 'end' column" fix: TLC then violates EndIsTsPlusDur and      *)
(* TrimMeaning (kept as MC_Load_prefix.cfg, an expected-violation run that *)
(* documents the defect; not part of any verdict).                         *)
(*                                                                         *)
(* Scope: U = 2 ticks per microsecond; each rank file is                   *)
(* <<S1, S2, H, K>>: two optional profiler steps, a host call (plain       *)
(* operator or launch with correlation id 1) and an optional kernel with   *)
(* correlation id 1; every start in 0..TS ticks and duration in 0..DS      *)
(* ticks; the second rank, if any, is the first one delayed by Skew ticks. *)
(***************************************************************************)
EXTENDS Load

CONSTANTS TS, DS, Skews, ShiftEnd
U == 2

Absent(id) == [id |-> id, kind |-> "M", ts |-> 0, dur |-> 0, pid |-> 0, tid |-> 0, stream |-> -1, corr |-> -1, name |-> "", cat |-> ""]
HostE(id, ts, dur, name, corr) == [id |-> id, kind |-> "X", ts |-> ts, dur |-> dur, pid |-> 5, tid |-> 5, stream |-> -1, corr |-> corr,
                                   name |-> name, cat |-> "cpu_op"]
KernE(id, ts, dur) == [id |-> id, kind |-> "X", ts |-> ts, dur |-> dur, pid |-> 0, tid |-> 7, stream |-> 7, corr |-> 1,
                       name |-> "ampere_sgemm_128x64_nn", cat |-> "kernel"]
Times == (0..TS) \X (0..DS)
S1s == {Absent(1)} \cup { HostE(1, t[1], t[2], "ProfilerStep#1", -1) : t \in { x \in Times : x[2] >= U } }
S2s == {Absent(2)} \cup { HostE(2, t[1], t[2], "ProfilerStep#2", -1) : t \in { x \in Times : x[2] >= U } }
Hs  == { HostE(0, t[1], t[2], "aten::add", -1) : t \in Times } \cup { HostE(0, t[1], t[2], "cudaLaunchKernel", 1) : t \in Times }
Ks  == {Absent(3)} \cup { KernE(3, t[1], t[2]) : t \in Times }
FileSet(h, a, b, k) == {h, a, b, k}
Delay(F, d) == { [x EXCEPT !.ts = IF x.kind = "X" THEN @ + d ELSE @] : x \in F }

VARIABLES files,   \* rank |-> set of entries
          incl, phase, parsed, frames, minTs
vars == <<files, incl, phase, parsed, frames, minTs>>

RowsOfFile(F) == Image(F, U)
StepRowsOK(F) == LET R == RowsOfFile(F) IN
                 \A a, b \in Steps(R) : a.dur > 0 /\ (a # b => DisjointSpans(a, b))

Init == /\ \E h \in Hs, a \in S1s, b \in S2s, k \in Ks, d \in Skews :
              LET F == FileSet(h, a, b, k) IN
              /\ StepRowsOK(F) = TRUE
              /\ files = IF d = 99 THEN [r \in {0} |-> F] ELSE [r \in {0, 1} |-> IF r = 0 THEN F ELSE Delay(F, d)]
        /\ incl \in BOOLEAN
        /\ phase = "parse" /\ parsed = {} /\ frames = [r \in {} |-> {}] /\ minTs = 0

Ranks == DOMAIN files

\* a frame row carries the loader's derived columns
WithDerived(R) == { [id |-> x.id, ts |-> x.ts, dur |-> x.dur, end |-> x.ts + x.dur, stream |-> x.stream, corr |-> x.corr,
                     name |-> x.name, pid |-> x.pid, tid |-> x.tid, cat |-> x.cat,
                     link |-> LinkOf(R, x), iter |-> IterOf(R, x)] : x \in R }

Parse(k) == /\ phase = "parse" /\ k \in Ranks \ parsed
            /\ frames' = [r \in DOMAIN frames \cup {k} |-> IF r = k THEN WithDerived(RowsOfFile(files[k])) ELSE frames[r]]
            /\ parsed' = parsed \cup {k}
            /\ phase' = IF parsed' = Ranks THEN "align" ELSE "parse"
            /\ UNCHANGED <<files, incl, minTs>>

Align == /\ phase = "align"
         /\ LET m == SetMin(UNION { { x.ts : x \in frames[r] } : r \in Ranks }) IN
            /\ minTs' = m
            /\ frames' = [r \in Ranks |-> { [x EXCEPT !.ts = @ - m, !.end = IF ShiftEnd THEN @ - m ELSE @] : x \in frames[r] }]
         /\ phase' = "trim" /\ UNCHANGED <<files, incl, parsed>>

GlobalStepNames == UNION { { x.name : x \in Steps(frames[r]) } : r \in Ranks }
TrimRank(R) == LET host == { x \in R : Host(x) }
                   dev == { x \in R : Dev(x) }
                   lastStart == SetMax({ s.ts : s \in Steps(host) })
                   lastEnd == SetMax({ s.end : s \in Steps(host) })      \* the end COLUMN, as the code reads it
                   kh == { x \in host : IF incl THEN x.ts <= lastEnd ELSE x.ts < lastStart }
               IN kh \cup { d \in dev : \E h \in kh : h.corr = d.corr }
Trim == /\ phase = "trim"
        /\ frames' = IF Cardinality(GlobalStepNames) >= 2 THEN [r \in Ranks |-> TrimRank(frames[r])] ELSE frames
        /\ phase' = "index" /\ UNCHANGED <<files, incl, parsed, minTs>>

Index == /\ phase = "index" /\ phase' = "done" /\ UNCHANGED <<files, incl, parsed, frames, minTs>>

Next == (\E k \in Ranks : Parse(k)) \/ Align \/ Trim \/ Index
Spec == Init /\ [][Next]_vars
------------------------------------------------------------------------------
FileRows == [r \in Ranks |-> RowsOfFile(files[r])]
M0 == MinTs(files, U)

\* C01
Faithful == phase = "done" =>
    \A r \in Ranks : \A x \in frames[r] : \E y \in FileRows[r] :
        /\ y.id = x.id /\ x.ts = y.ts - M0 /\ x.dur = y.dur
        /\ x.stream = y.stream /\ x.corr = y.corr /\ x.name = y.name
MinTsMeaning == phase \in {"trim", "index", "done"} => minTs = M0
EndIsTsPlusDur == phase = "done" => \A r \in Ranks : \A x \in frames[r] : x.end = x.ts + x.dur
NoTrimNoLoss == (phase = "done" /\ ~Trims(FileRows)) =>
                   /\ \A r \in Ranks : { x.id : x \in frames[r] } = { y.id : y \in FileRows[r] }
                   /\ \E r \in Ranks : \E x \in frames[r] : x.ts = 0
\* the rounding lemma over every pair of entries of the scope
Rounding == \A r \in Ranks : \A a, b \in { x \in files[r] : Complete(x) } :
               RoundInward(a, U) /\ KeepsNesting(a, b, U) /\ KeepsDisjoint(a, b, U)

\* C12
TrimMeaning == phase = "done" =>
    \A r \in Ranks : { x.id : x \in frames[r] } =
        IF Trims(FileRows) THEN { y.id : y \in Kept(FileRows[r], incl) } ELSE { y.id : y \in FileRows[r] }
IterMeaning == phase = "done" =>
    \A r \in Ranks : \A x \in frames[r] : x.iter = IterOf(FileRows[r], CHOOSE y \in FileRows[r] : y.id = x.id)
=============================================================================
