---------------------------- MODULE MC_MergeEmit ----------------------------
(***************************************************************************)
(* Spec -> code binding of the interval merge (Intervals.tla: MergeStep):  *)
(* every multiset of at most N intervals on the grid is printed with the   *)
(* groups the model computes (identical for every tie order, see InvMerge  *)
(* in MC_Breakdown); the harness feeds the same rows to the real           *)
(* hta.utils.utils.merge_kernel_intervals.                                 *)
(***************************************************************************)
EXTENDS Intervals, TLC, Json
CONSTANTS N, T, D
Item == [ts : 0..T, dur : 0..D]
Key(e) == e.ts * (D + 1) + e.dur
Inputs == UNION { { s \in [1..n -> Item] : \A j \in 1..(n - 1) : Key(s[j]) <= Key(s[j + 1]) } : n \in 1..N }
VARIABLE ks
Init == ks \in Inputs
Next == UNCHANGED ks
Spec == Init /\ [][Next]_ks
AllOrdersAgree == \A p, q \in SortOrders(ks) : Merged(ks, p) = Merged(ks, q)
Emit == PrintT("@@E " \o ToJson([rows |-> ks, groups |-> Merged(ks, CHOOSE p \in SortOrders(ks) : TRUE)]))
=============================================================================
