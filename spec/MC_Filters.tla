------------------------------ MODULE MC_Filters ------------------------------
(***************************************************************************)
(* C18 laws, over EVERY frame of at most N rows drawn from a row menu and  *)
(* every filter of a parameter menu.  The state machine applies filters    *)
(* one after the other (one action per application, any sequence of length *)
(* <= L); the invariants are evaluated in every reachable state:           *)
(*   Selection    the current frame is an order-preserving selection of    *)
(*                the original rows, contents unchanged                    *)
(*   FoldMeaning  it equals the composite of the applied filters           *)
(*   Idempotent   applying any row-local filter twice = once               *)
(*   Commute      two row-local filters commute and give the intersection  *)
(* CommuteAll (every filter, including the position-based iteration        *)
(* filter) is FALSE: MC_Filters_iteridx.cfg makes TLC exhibit a frame on   *)
(* which the order matters - which is why the law carries the side         *)
(* condition "predicate depends on the row alone".                         *)
(***************************************************************************)
EXTENDS Filters, TLC
CONSTANTS N, L

RowMenu == { [uid |-> 0, ts |-> t, dur |-> 1, stream |-> s, corr |-> IF s = 7 THEN 1 ELSE -1, name |-> n, cat |-> "x", iter |-> it, rank |-> rk] :
               t \in {0, 2}, s \in {-1, 7}, n \in {"aten::add", "Event Sync"}, it \in {-1, 3, 4}, rk \in {0, 1} }
FilterMenu == { [k |-> "iter", its |-> {3}], [k |-> "iter", its |-> {3, 4}], [k |-> "iteridx", idx |-> {0}], [k |-> "iteridx", idx |-> {1}],
                [k |-> "rank", ranks |-> {0}], [k |-> "time", a |-> 0, b |-> 2], [k |-> "time", a |-> 1, b |-> 3],
                [k |-> "name", pat |-> "aten::"], [k |-> "gpu"], [k |-> "cpu"] }

VARIABLES frame0, hasST, cur, hist, picked
vars == <<frame0, hasST, cur, hist, picked>>
\* one initial state; the frame is built row by row and then frozen (Start), so that TLC's workers share the frames: initial states and
\* the successors of one state are processed by a single thread
Init == frame0 = <<>> /\ hasST = FALSE /\ cur = <<>> /\ hist = <<>> /\ picked = FALSE
AddRow == /\ ~picked /\ Len(frame0) < N
          /\ \E r \in RowMenu : frame0' = Append(frame0, [r EXCEPT !.uid = Len(frame0) + 1])
          /\ cur' = frame0' /\ UNCHANGED <<hasST, hist, picked>>
Start == /\ ~picked /\ picked' = TRUE /\ hasST' \in BOOLEAN /\ UNCHANGED <<frame0, cur, hist>>
Pick == AddRow \/ Start
ApplyOne == /\ picked /\ Len(hist) < L
            /\ \E f \in FilterMenu : cur' = Apply(f, cur, hasST) /\ hist' = Append(hist, f)
            /\ UNCHANGED <<frame0, hasST, picked>>
Next == Pick \/ ApplyOne
Spec == Init /\ [][Next]_vars

Uids(F) == [j \in DOMAIN F |-> F[j].uid]
Selection == /\ \A j \in DOMAIN cur : cur[j] = frame0[cur[j].uid]
             /\ \A a, b \in DOMAIN cur : a < b => cur[a].uid < cur[b].uid
FoldMeaning == cur = Composite(hist, frame0, hasST)
LocalMenu == { f \in FilterMenu : RowLocal(f) }
Idempotent == \A f \in LocalMenu : Apply(f, Apply(f, cur, hasST), hasST) = Apply(f, cur, hasST)
Both(f, g, F) == LET keep == { j \in DOMAIN F : Pred(f, F[j], F, hasST) /\ Pred(g, F[j], F, hasST) }
                 IN { F[j].uid : j \in keep }
Commute == \A f, g \in LocalMenu :
              /\ Apply(f, Apply(g, cur, hasST), hasST) = Apply(g, Apply(f, cur, hasST), hasST)
              /\ Range(Uids(Apply(f, Apply(g, cur, hasST), hasST))) = Both(f, g, cur)
CommuteAll == \A f, g \in FilterMenu : Apply(f, Apply(g, cur, hasST), hasST) = Apply(g, Apply(f, cur, hasST), hasST)
=============================================================================
