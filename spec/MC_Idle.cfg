SPECIFICATION Spec
CONSTANTS
  K = 3
  T = 4
  D = 2
  Thrs = {1, 2}
  JoinPositiveOnly = TRUE
INVARIANT IdleMeaning
INVARIANT IdleAddsUp
INVARIANT UnlinkedNeverHostWait
CHECK_DEADLOCK FALSE
