SPECIFICATION Spec
CONSTANTS
  N = 3
  T = 3
  D = 2
INVARIANT AllOrdersAgree
INVARIANT Emit
CHECK_DEADLOCK FALSE
