SPECIFICATION Spec
CONSTANTS
  N = 4
  T = 3
  Builder = "key"
  ExcludeTouch = FALSE
  U = 1
  EmitOn = FALSE
  TruncEnd = FALSE
  ExcludeZeroPairs = FALSE
INVARIANT TotalOrder
INVARIANT Sortable
INVARIANT LIFO
INVARIANT TreeOK
INVARIANT AdjacentLess
CHECK_DEADLOCK FALSE
