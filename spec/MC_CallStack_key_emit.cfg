SPECIFICATION Spec
CONSTANTS
  N = 3
  T = 3
  Builder = "key"
  ExcludeTouch = FALSE
  U = 1
  EmitOn = TRUE
  TruncEnd = FALSE
  ExcludeZeroPairs = FALSE
INVARIANT TotalOrder
INVARIANT Sortable
INVARIANT LIFO
INVARIANT TreeOK
INVARIANT AdjacentLess
INVARIANT Emit
CHECK_DEADLOCK FALSE
