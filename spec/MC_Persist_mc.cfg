SPECIFICATION Spec
CONSTANTS
  Slots = {1, 2}
  MaxOps = 5
  EmitAt = 99
INVARIANT RestoredIsSaved
INVARIANT PathOnlyChangedByRecompute
INVARIANT DiskNeverAhead

CHECK_DEADLOCK FALSE
