----------------------------- MODULE SymbolTable -----------------------------
(***************************************************************************)
(* C11: the symbol table -- an append-only bijection between strings and   *)
(* integer ids -- and the multi-rank loading protocol on top of it.        *)
(*                                                                         *)
(* table : sequence of symbols, id = position - 1                          *)
(* The index is derived (Index(table)); the implementation keeps it as a   *)
(* second structure, which is exactly what the conformance replay checks.  *)
(***************************************************************************)
EXTENDS Integers, Sequences, FiniteSets

Rng(s) == { s[i] : i \in DOMAIN s }
NoDup(t) == \A a, b \in DOMAIN t : a # b => t[a] # t[b]
Index(t) == [s \in Rng(t) |-> (CHOOSE k \in DOMAIN t : t[k] = s) - 1]
IdOf(t, s) == Index(t)[s]
SymOf(t, id) == t[id + 1]

\* add_symbols: in iteration order, append what is new
RECURSIVE AddAll(_, _)
AddAll(t, syms) == IF syms = <<>> THEN t
                   ELSE AddAll(IF Head(syms) \in Rng(t) THEN t ELSE Append(t, Head(syms)), Tail(syms))

TableBijection(t) == NoDup(t) /\ \A k \in DOMAIN t : IdOf(t, t[k]) = k - 1
\* ids once assigned never change: the old table is a prefix of the new one
AppendOnly(old, new) == Len(old) <= Len(new) /\ \A k \in DOMAIN old : new[k] = old[k]

\* all interleavings of a set of sequences that preserve each sequence's own order
RECURSIVE Interleavings(_)
Interleavings(lists) ==
    LET nonempty == { k \in DOMAIN lists : lists[k] # <<>> } IN
    IF nonempty = {} THEN { <<>> }
    ELSE UNION { { <<Head(lists[k])>> \o rest : rest \in Interleavings([lists EXCEPT ![k] = Tail(@)]) } : k \in nonempty }

\* encoding / decoding of a column of strings
Encode(t, col) == [k \in DOMAIN col |-> IdOf(t, col[k])]
Decode(t, ids) == [k \in DOMAIN ids |-> SymOf(t, ids[k])]
=============================================================================
