-------------------------- MODULE MC_CallGraphAttrs --------------------------
(***************************************************************************)
(* C13 model checking: the bottom-up passes that decorate the call graph   *)
(* (_compute_height, _add_kernel_info_to_cpu_ops), one action per visited  *)
(* node in ANY post-order (children before parents), over EVERY forest of  *)
(* H host events and K device activities (each linked to some host event,  *)
(* every start in 0..TS, every duration in 0..DS).  The sentinel for "no   *)
(* kernel yet" is 2 * max(ts), as in the code; the invariants compare the  *)
(* accumulated values with the declarative aggregates over descendants.    *)
(* Optionally one re-parenting step (the backward-thread linking) moves a  *)
(* top-level node beneath another one before the passes run.               *)
(***************************************************************************)
EXTENDS CallGraphAttrs, TLC

CONSTANTS H, K, TS, DS

HostIds == 1..H
KernIds == (H + 1)..(H + K)
VARIABLES par, kts, kdur, relinked, done, info, phase
vars == <<par, kts, kdur, relinked, done, info, phase>>

\* host i hangs beneath a smaller id or the root (-1): every forest, each once
Init == /\ par \in [HostIds \cup KernIds -> {-1} \cup HostIds]
        /\ \A i \in HostIds : par[i] = -1 \/ par[i] < i
        /\ \A k \in KernIds : par[k] \in HostIds
        /\ kts \in [KernIds -> 0..TS] /\ kdur \in [KernIds -> 0..DS]
        /\ relinked = FALSE /\ done = {} /\ info = [n \in {} |-> 0] /\ phase = "link"

R == { [id |-> i, ts |-> 0, dur |-> 1, pid |-> 5, tid |-> 5, stream |-> -1, link |-> -1, parent |-> par[i]] : i \in HostIds }
     \cup { [id |-> k, ts |-> kts[k], dur |-> kdur[k], pid |-> 0, tid |-> 7, stream |-> 7, link |-> par[k], parent |-> par[k]] : k \in KernIds }
Row(n) == RowById(R, n)
TMax == 2 * SetMax({ kts[k] : k \in KernIds } \cup {0})

\* the backward linking: a top-level host node is moved beneath another top-level node that is not its descendant
Relink == /\ phase = "link" /\ ~relinked
          /\ \E o, a \in HostIds : /\ o # a /\ par[o] = -1 /\ par[a] = -1
                                   /\ par' = [par EXCEPT ![o] = a]
          /\ relinked' = TRUE /\ UNCHANGED <<kts, kdur, done, info, phase>>
Start == /\ phase = "link" /\ phase' = "visit" /\ UNCHANGED <<par, kts, kdur, relinked, done, info>>

ChildrenOf(n) == { c \in HostIds \cup KernIds : par[c] = n }
Visit == /\ phase = "visit"
         /\ \E n \in (HostIds \cup KernIds) \ done :
               /\ ChildrenOf(n) \subseteq done
               /\ LET C == ChildrenOf(n)
                      rec == IF n \in KernIds
                             THEN [count |-> 1, sum |-> kdur[n], first |-> kts[n], last |-> kts[n] + kdur[n], height |-> 0]
                             ELSE [count |-> SumSet(C, [c \in C |-> info[c].count]),
                                   sum |-> SumSet(C, [c \in C |-> info[c].sum]),
                                   first |-> SetMin({ info[c].first : c \in C } \cup {TMax}),
                                   last |-> SetMax({ info[c].last : c \in C } \cup {-1}),
                                   height |-> IF C = {} THEN 1 ELSE 1 + SetMax({ info[c].height : c \in C })]
                  IN info' = [x \in DOMAIN info \cup {n} |-> IF x = n THEN rec ELSE info[x]]
               /\ done' = done \cup {n}
         /\ UNCHANGED <<par, kts, kdur, relinked, phase>>
Finish == /\ phase = "visit" /\ done = HostIds \cup KernIds /\ phase' = "done"
          /\ UNCHANGED <<par, kts, kdur, relinked, done, info>>
Next == Relink \/ Start \/ Visit \/ Finish
Spec == Init /\ [][Next]_vars

\* what _normalize_stack_columns leaves in the frame for a host event
Norm(rec) == IF rec.count <= 0 THEN [nk |-> 0, ksum |-> 0, kfirst |-> -1, klast |-> -1, kspan |-> 0]
             ELSE [nk |-> rec.count, ksum |-> rec.sum, kfirst |-> rec.first, klast |-> rec.last, kspan |-> rec.last - rec.first]
Decorated == { [id |-> n, ts |-> Row(n).ts, dur |-> Row(n).dur, pid |-> Row(n).pid, tid |-> Row(n).tid, stream |-> Row(n).stream,
                link |-> Row(n).link, parent |-> Row(n).parent,
                nk |-> Norm(info[n]).nk, ksum |-> Norm(info[n]).ksum, kfirst |-> Norm(info[n]).kfirst, klast |-> Norm(info[n]).klast,
                kspan |-> Norm(info[n]).kspan, height |-> info[n].height] : n \in HostIds \cup KernIds }
AttrsMeaning == phase = "done" =>
    /\ NumKernelsOK(Decorated) /\ KernelSumOK(Decorated) /\ KernelFirstOK(Decorated)
    /\ KernelLastOK(Decorated) /\ KernelSpanOK(Decorated) /\ HeightAgrees(Decorated)
\* intermediate: a visited host node's count is the number of its device descendants
PartialCounts == \A n \in done \cap HostIds : info[n].count = Cardinality(KernelDesc(R, Row(n)))
=============================================================================
