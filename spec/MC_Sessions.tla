----------------------------- MODULE MC_Sessions -----------------------------
(***************************************************************************)
(* Interleaved histories of public calls on two live objects.  The model   *)
(* keeps one Session state per object and steps only the called object;    *)
(* Isolated says the result is what each object's own history gives, and   *)
(* Commute that swapping two adjacent calls on different objects changes   *)
(* nothing.  Histories are printed (Emit) and replayed on real objects:    *)
(* every call's result must equal the result of the same call in a fresh   *)
(* process that only ever saw that object (Trace_Sessions.tla).            *)
(***************************************************************************)
EXTENDS Sessions, TLC, Json
CONSTANTS MaxLen, EmitAt
VARIABLES st, hist
vars == <<st, hist>>
Init == st = [o \in Objs |-> Start] /\ hist = <<>>
Call(o, op) == /\ Len(hist) < MaxLen
               /\ st' = [st EXCEPT ![o] = Step(st[o], op)]
               /\ hist' = Append(hist, [obj |-> o, op |-> op])
Next == \E o \in Objs : \E op \in Ops : Call(o, op)
Spec == Init /\ [][Next]_vars
Isolated == \A o \in Objs : st[o] = ObjState(hist, o)
\* swapping the last two calls when they are on different objects gives the same states
Swap(h) == LET n == Len(h) IN [k \in 1..n |-> IF k = n - 1 THEN h[n] ELSE IF k = n THEN h[n - 1] ELSE h[k]]
Commute == (Len(hist) >= 2 /\ hist[Len(hist)].obj # hist[Len(hist) - 1].obj) =>
              \A o \in Objs : ObjState(Swap(hist), o) = st[o]
PositionsOK == \A k \in DOMAIN hist : PosIn(hist, k) >= 1 /\ Sub(hist, hist[k].obj)[PosIn(hist, k)] = hist[k].op
Emit == (Len(hist) = EmitAt) => PrintT("@@E " \o ToJson(hist))
=============================================================================
