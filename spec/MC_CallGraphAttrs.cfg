SPECIFICATION Spec
CONSTANTS
  H = 4
  K = 3
  TS = 2
  DS = 1
INVARIANT AttrsMeaning
INVARIANT PartialCounts
CHECK_DEADLOCK FALSE
