SPECIFICATION Spec
CONSTANTS
  N = 5
  T = 4
  Builder = "old"
  ExcludeTouch = TRUE
  ExcludeZeroPairs = TRUE
INVARIANT TotalOrder
INVARIANT Sortable
INVARIANT LIFO
INVARIANT TreeOK
CHECK_DEADLOCK FALSE
