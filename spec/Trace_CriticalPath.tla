------------------------- MODULE Trace_CriticalPath -------------------------
(***************************************************************************)
(* Trace validation for C08, C09, C10 (and the graph part of C19).         *)
(* A record: full = rows of the whole rank (domain predicates), rows =     *)
(* rows of the analysed window, nodes, edges, the reported path / sets,    *)
(* the breakdown and summary, and optionally what-if re-weighted copies    *)
(* (rw: edges with new weights and the recomputed path).                   *)
(***************************************************************************)
EXTENDS CriticalPath, Json, IOUtils, TLC

Recs == ndJsonDeserialize(IOEnv.OBS_FILE)
VARIABLE i

Full(r) == Range(r.full)
Win(r) == Range(r.rows)
Edg(r) == Range(r.edges)

C08(r) ==
  [ in_domain    |-> WellFormedRows(Full(r)) /\ StrictSerial(Full(r)) /\ CausallyConsistent(Full(r)),
    input_faithful |-> RowsFaithful(Full(r), Range(r.file)) /\ LinksFaithful(Full(r), Range(r.file)),
    succeeds     |-> r.err = "" /\ r.success,
    node_ids     |-> r.err = "" => NodeIdsOK(r.nodes) /\ EdgesClosed(r.nodes, Edg(r)) /\ SimpleGraph(Edg(r)),
    one_start_one_end |-> r.err = "" => OneStartOneEnd(Win(r), r.nodes),
    node_times   |-> r.err = "" => NodeTimes(Win(r), r.nodes),
    acyclic      |-> r.err = "" => Acyclic(r.nodes, Edg(r)),
    forward      |-> r.err = "" => Forward(r.nodes, Edg(r)),
    weight_rule  |-> r.err = "" => WeightRule(Win(r), r.nodes, Edg(r), r.zero),
    non_negative |-> r.err = "" => NonNegative(Edg(r)),
    launch_edges |-> r.err = "" => EdgeShapes(Win(r), r.nodes, Edg(r), "launch", LaunchEdgeOK),
    k2k_edges    |-> r.err = "" => EdgeShapes(Win(r), r.nodes, Edg(r), "k2k", K2KEdgeOK),
    sync_edges   |-> r.err = "" => EdgeShapes(Win(r), r.nodes, Edg(r), "sync", SyncEdgeOK),
    span_edges   |-> r.err = "" => EdgeShapes(Win(r), r.nodes, Edg(r), "op", SpanEdgeOK),
    dep_edges    |-> r.err = "" => EdgeShapes(Win(r), r.nodes, Edg(r), "dep", DepEdgeOK) ]

PathOK(nodes, E, p) ==
    /\ Len(p.path) >= 2
    /\ PathConnected(E, p.path)
PathSets(nodes, E, p) ==
    /\ Range(p.pevents) = { Node(nodes, p.path[j]).ev : j \in DOMAIN p.path }
    /\ { <<x[1], x[2]>> : x \in Range(p.pedges) } = { <<p.path[j], p.path[j + 1]>> : j \in 1..(Len(p.path) - 1) }
    /\ Len(p.pedges) = Len(p.path) - 1
C09(r) ==
  IF r.err # "" \/ ~r.success THEN [analysis_succeeded |-> FALSE] ELSE
  LET E == Edg(r) IN
  [ analysis_succeeded |-> TRUE,
    in_domain   |-> Acyclic(r.nodes, E),
    connected   |-> PathOK(r.nodes, E, r.p),
    optimal     |-> PathOK(r.nodes, E, r.p) => PathWeight(E, r.p.path) = LongestWeight(r.nodes, E),
    within_makespan |-> PathOK(r.nodes, E, r.p) => PathWeight(E, r.p.path) <= Makespan(r.nodes),
    sets        |-> PathSets(r.nodes, E, r.p),
    whatif_connected |-> \A k \in DOMAIN r.rw : r.rw[k].ok => PathOK(r.nodes, Range(r.rw[k].edges), r.rw[k].p),
    whatif_optimal   |-> \A k \in DOMAIN r.rw : (r.rw[k].ok /\ PathOK(r.nodes, Range(r.rw[k].edges), r.rw[k].p)) =>
                            PathWeight(Range(r.rw[k].edges), r.rw[k].p.path) = LongestWeight(r.nodes, Range(r.rw[k].edges)),
    whatif_sets      |-> \A k \in DOMAIN r.rw : r.rw[k].ok => PathSets(r.nodes, Range(r.rw[k].edges), r.rw[k].p),
    whatif_weights_kept |-> \A k \in DOMAIN r.rw : r.rw[k].ok =>
                            { <<x[1], x[2], x[3]>> : x \in Range(r.rw[k].after) } = { <<e.u, e.v, e.gw>> : e \in Range(r.rw[k].edges) },
    whatif_runs      |-> \A k \in DOMAIN r.rw : r.rw[k].ok,
    \* call history: the first graph read again after the what-if copies were analysed still reports ITS path and sets
    sets_after_other_graphs |-> r.p2.path = r.p.path /\ PathSets(r.nodes, E, r.p2) ]

\* ---- C10
CritEdges(r) == { e \in Edg(r) : \E x \in Range(r.p.pedges) : x[1] = e.u /\ x[2] = e.v }
BdRows(r) == Range(r.bd)
AttrOK(r, e) ==
    LET R == Win(r)
        a == e.attr
        lo == Node(r.nodes, e.u).ts  hi == Node(r.nodes, e.v).ts
        src == EvOf(R, Node(r.nodes, e.u).ev)
    IN CASE e.type = "k2k" -> a = src.id
         [] e.type = "op"  -> /\ a >= 0 /\ HasRow(Range(r.full), a)
                              /\ LET ev == EvOf(Range(r.full), a) IN
                                   /\ Covers(ev, lo, hi)
                                   /\ IF IsDevRow(src) THEN ev.id = src.id ELSE (~IsDevRow(ev) /\ SameThread(ev, src))
         [] OTHER -> TRUE
C10Once(r) ==
  IF r.err # "" \/ ~r.success THEN [analysis_succeeded |-> FALSE] ELSE
  LET CE == CritEdges(r)
      total == SumSet(CE, [e \in CE |-> e.w])
  IN
  [ analysis_succeeded |-> TRUE,
    in_domain     |-> PathOK(r.nodes, Edg(r), r.p),
    one_row_per_edge |-> Len(r.bd) = Cardinality(CE) /\ \A e \in CE : \E b \in BdRows(r) : b.u = e.u /\ b.v = e.v,
    durations     |-> \A b \in BdRows(r) : \E e \in CE : e.u = b.u /\ e.v = b.v /\ b.dur = e.w /\ b.type = e.type,
    total_weight  |-> SumSeq([k \in DOMAIN r.bd |-> r.bd[k].dur]) = total /\ total = PathWeight(Edg(r), r.p.path),
    attribution   |-> \A e \in { x \in Edg(r) : x.type \in {"op", "k2k"} } : AttrOK(r, e),
    attribution_reported |-> \A b \in BdRows(r) : \E e \in CE : e.u = b.u /\ e.v = b.v /\ (e.type \in {"op", "k2k"} => b.ev = e.attr),
    bound_by      |-> \A b \in BdRows(r) : b.bound = BoundOf(Range(r.full), b.type, b.ev),
    summary       |-> total > 0 =>
                        /\ \A s \in Range(r.summary) :
                              LET part == SumSet({ b \in BdRows(r) : b.bound = s.bound }, [b \in BdRows(r) |-> b.dur])
                              IN Abs(s.pct * total - 100000 * part) <= total
                        /\ Abs(SumSeq([k \in DOMAIN r.summary |-> r.summary[k].pct]) - 100000) <= Len(r.summary)
                        /\ { s.bound : s \in Range(r.summary) } = { b.bound : b \in BdRows(r) } ]

\* call history on one graph object: after a what-if edit of the live graph and critical_path() again, the breakdown and the summary
\* read again must satisfy every clause with respect to the edited graph and the recomputed path
AfterEdit(r) == [r EXCEPT !.edges = r.again.edges, !.p = r.again.p, !.bd = r.again.bd, !.summary = r.again.summary]
C10(r) == LET c == C10Once(r) IN
          IF r.err = "" /\ r.success /\ r.again.ok
          THEN c @@ [after_recompute |-> LET d == C10Once(AfterEdit(r)) IN \A k \in DOMAIN d : d[k]]
          ELSE c

C08Tags(r) == {}
Clauses(r) == CASE r.prop = "C08" -> C08(r)
                [] r.prop = "C09" -> C09(r)
                [] r.prop = "C10" -> C10(r)
Verdict(r) == LET c == Clauses(r) IN { k \in DOMAIN c : ~c[k] }

Init == i = 1
Next == /\ i <= Len(Recs)
        /\ PrintT(<<"@@V", Recs[i].id, Verdict(Recs[i])>>)
        /\ i' = i + 1
Spec == Init /\ [][Next]_i
=============================================================================
