SPECIFICATION Spec
CONSTANTS
  MaxLen = 3
  EmitAt = 99
INVARIANT Consistent
INVARIANT EmitState
CHECK_DEADLOCK FALSE
