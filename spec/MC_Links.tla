------------------------------ MODULE MC_Links ------------------------------
(***************************************************************************)
(* C02: the correlation-to-link transformation, as the loader does it:     *)
(*   InitSentinel   link := min(corr, 0) for every row                     *)
(*   (split)        rows with a correlation id are split by the side       *)
(*                  predicate Dev / Host                                   *)
(*   MergeRow       one row of the inner join host x device on the         *)
(*                  correlation id: write both directions                  *)
(* checked over EVERY trace of at most N events drawn from a menu that     *)
(* contains missing partners, ids reused across sides only, device-wide    *)
(* synchronisation records on stream -1 and stream synchronisation records *)
(* on a stream, in every file order (ids are positions).                   *)
(***************************************************************************)
EXTENDS Load

CONSTANTS N, Corrs, WF     \* WF = TRUE: restrict to the property's input domain

Kinds == {"op", "rt", "kern", "esync", "ssync"}
Mk(id, kind, corr) ==
    [id |-> id, ts |-> id, dur |-> 1, pid |-> IF kind \in {"op", "rt"} THEN 5 ELSE 0,
     tid |-> IF kind \in {"op", "rt"} THEN 5 ELSE 7,
     stream |-> IF kind \in {"kern", "ssync"} THEN 7 ELSE -1,
     corr |-> IF kind = "op" THEN -1 ELSE corr,
     name |-> CASE kind = "op" -> "aten::add" [] kind = "rt" -> "cudaLaunchKernel" [] kind = "kern" -> "ampere_sgemm_128x64_nn"
                [] kind = "esync" -> "Event Sync" [] kind = "ssync" -> "Stream Sync",
     cat |-> IF kind = "op" THEN "cpu_op" ELSE "x"]
Menu == {[kind |-> "op", corr |-> -1]} \cup [kind : Kinds \ {"op"}, corr : Corrs]
Traces == UNION { { [k \in 0..(n - 1) |-> IF k = 0 THEN Mk(0, "op", -1) ELSE Mk(k, s[k].kind, s[k].corr)] :
                      s \in [1..(n - 1) -> Menu] } : n \in 1..N }

VARIABLES T, link, phase, todo
vars == <<T, link, phase, todo>>
Ev == { T[k] : k \in DOMAIN T }

Init == /\ T \in Traces
        /\ (WF => WellFormed({ T[k] : k \in DOMAIN T })) = TRUE      \* "= TRUE": a value, not a formula TLC splits on its disjunctions
        /\ link = [k \in DOMAIN T |-> -9]
        /\ phase = "init" /\ todo = {}

InitSentinel == /\ phase = "init"
                /\ link' = [k \in DOMAIN T |-> Min2(T[k].corr, 0)]
                /\ todo' = { <<h, d>> \in (DOMAIN T) \X (DOMAIN T) :
                                /\ T[h].corr # -1 /\ T[d].corr # -1
                                /\ Host(T[h]) /\ Dev(T[d]) /\ T[h].corr = T[d].corr }
                /\ phase' = "merge" /\ UNCHANGED T

MergeRow == /\ phase = "merge" /\ todo # {}
            /\ \E p \in todo : /\ link' = [link EXCEPT ![p[1]] = p[2], ![p[2]] = p[1]]
                               /\ todo' = todo \ {p}
            /\ UNCHANGED <<T, phase>>

Done == /\ phase = "merge" /\ todo = {} /\ phase' = "done" /\ UNCHANGED <<T, link, todo>>

Next == InitSentinel \/ MergeRow \/ Done
Spec == Init /\ [][Next]_vars

LinkMeaning == phase = "done" => \A k \in DOMAIN T : link[k] = LinkOf(Ev, T[k])
Mutual == phase = "done" => \A k \in DOMAIN T : link[k] > 0 =>
             /\ link[link[k]] = k /\ Side(T[link[k]]) # Side(T[k]) /\ T[link[k]].corr = T[k].corr
\* during the merge a link is either still the sentinel or already final (no intermediate garbage)
Monotone == phase = "merge" => \A k \in DOMAIN T : link[k] \in {Min2(T[k].corr, 0), LinkOf(Ev, T[k])}
=============================================================================
