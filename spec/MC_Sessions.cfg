SPECIFICATION Spec
CONSTANTS
  MaxLen = 3
  EmitAt = 99
INVARIANT Isolated
INVARIANT Commute
INVARIANT PositionsOK
CHECK_DEADLOCK FALSE
