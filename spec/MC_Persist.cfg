SPECIFICATION Spec
CONSTANTS
  Slots = {1, 2}
  MaxOps = 5
  EmitAt = 5
INVARIANT RestoredIsSaved
INVARIANT PathOnlyChangedByRecompute
INVARIANT DiskNeverAhead
INVARIANT Emit
CHECK_DEADLOCK FALSE
