---------------------------- MODULE MC_SymbolTable ----------------------------
(***************************************************************************)
(* C11 model checking, two layers in one state machine.                    *)
(*                                                                         *)
(* Table operations (any history of length <= MaxOps):                     *)
(*   AddSymbols(s)      any sequence over Vocab of length <= 3, repeats ok *)
(*   AddSymbolsMP(ls)   lists handled by pool workers; the queue delivers  *)
(*                      ANY interleaving that keeps each list's order      *)
(*   Clone, Combine     copies / merges into a scratch table               *)
(* Multi-rank loading (when Ranks # {}): every rank has its own vocabulary *)
(* and a column of strings;                                                *)
(*   LocalNumber(r, p)  the rank's local table is ANY permutation p of its *)
(*                      vocabulary (iteration order of a Python set: hash  *)
(*                      seed); the column is encoded with local ids        *)
(*   Finish(r)          workers finish in ANY order                        *)
(*   Collect(r)         local tables are merged into the global one in     *)
(*                      RANK order (pool.map returns results in order)     *)
(*   Reencode(r)        local ids -> global ids                            *)
(* Properties: Bijection in every state; ids never change (action          *)
(* property AppendOnlyStep); after loading every rank's column decodes to  *)
(* its original strings whatever the numbering and schedule were.          *)
(* log records [op, arg, table] per table operation for the replay into    *)
(* the real TraceSymbolTable (hidden by the VIEW).                         *)
(***************************************************************************)
EXTENDS SymbolTable, TLC, Json

CONSTANTS Vocab, MaxOps, Ranks, EmitAt

VARIABLES table, scratch, log, phase, ltab, lcol, finished, collected, reenc, col0
vars == <<table, scratch, log, phase, ltab, lcol, finished, collected, reenc, col0>>
view == <<table, scratch, phase, ltab, lcol, finished, collected, reenc, col0, Len(log)>>

SeqsUpTo(S, n) == UNION { [1..k -> S] : k \in 0..n }
Perms(S) == { p \in [1..Cardinality(S) -> S] : \A a, b \in 1..Cardinality(S) : a # b => p[a] # p[b] }

Init == /\ table = <<>> /\ scratch = <<>> /\ log = <<>>
        /\ phase = IF Ranks = {} THEN "ops" ELSE "load"
        /\ col0 \in [Ranks -> SeqsUpTo(Vocab, 2) \ {<<>>}]       \* every rank's column of strings
        /\ ltab = [r \in Ranks |-> <<>>] /\ lcol = [r \in Ranks |-> <<>>]
        /\ finished = {} /\ collected = {} /\ reenc = {}

Logged(op, arg, t) == log' = Append(log, [op |-> op, arg |-> arg, table |-> t])

AddSymbols == /\ phase = "ops" /\ Len(log) < MaxOps
              /\ \E s \in SeqsUpTo(Vocab, 3) :
                    /\ table' = AddAll(table, s) /\ Logged("add", <<s>>, table')
              /\ UNCHANGED <<scratch, phase, ltab, lcol, finished, collected, reenc, col0>>
AddSymbolsMP == /\ phase = "ops" /\ Len(log) < MaxOps
                /\ \E ls \in [1..2 -> SeqsUpTo(Vocab, 2)] : \E arrival \in Interleavings(ls) :
                      /\ table' = AddAll(table, arrival) /\ Logged("add_mp", ls, table')
                /\ UNCHANGED <<scratch, phase, ltab, lcol, finished, collected, reenc, col0>>
Clone == /\ phase = "ops" /\ Len(log) < MaxOps
         /\ scratch' = table /\ Logged("clone", <<>>, table) /\ UNCHANGED <<table, phase, ltab, lcol, finished, collected, reenc, col0>>
Combine == /\ phase = "ops" /\ Len(log) < MaxOps
           /\ table' = AddAll(AddAll(<<>>, scratch), table)       \* combine_symbol_tables([scratch, table])
           /\ Logged("combine", <<>>, table') /\ UNCHANGED <<scratch, phase, ltab, lcol, finished, collected, reenc, col0>>

LocalNumber(r) == /\ phase = "load" /\ ltab[r] = <<>>
                  /\ \E p \in Perms(Rng(col0[r])) :
                        /\ ltab' = [ltab EXCEPT ![r] = p]
                        /\ lcol' = [lcol EXCEPT ![r] = Encode(p, col0[r])]
                  /\ UNCHANGED <<table, scratch, log, phase, finished, collected, reenc, col0>>
Finish(r) == /\ phase = "load" /\ ltab[r] # <<>> /\ r \notin finished
             /\ finished' = finished \cup {r}
             /\ UNCHANGED <<table, scratch, log, phase, ltab, lcol, collected, reenc, col0>>
Collect(r) == /\ phase = "load" /\ finished = Ranks /\ r \notin collected
              /\ \A q \in Ranks : q < r => q \in collected          \* rank order
              /\ table' = AddAll(table, ltab[r])
              /\ collected' = collected \cup {r}
              /\ UNCHANGED <<scratch, log, phase, ltab, lcol, finished, reenc, col0>>
Reencode(r) == /\ phase = "load" /\ collected = Ranks /\ r \notin reenc
               /\ lcol' = [lcol EXCEPT ![r] = [k \in DOMAIN lcol[r] |-> IdOf(table, SymOf(ltab[r], lcol[r][k]))]]
               /\ reenc' = reenc \cup {r}
               /\ UNCHANGED <<table, scratch, log, phase, ltab, finished, collected, col0>>

Next == AddSymbols \/ AddSymbolsMP \/ Clone \/ Combine
        \/ \E r \in Ranks : LocalNumber(r) \/ Finish(r) \/ Collect(r) \/ Reencode(r)
Spec == Init /\ [][Next]_vars

BijectionInv == TableBijection(table) /\ TableBijection(scratch)
AppendOnlyStep == [][phase = "ops" => (AppendOnly(table, table') \/ (table' = AddAll(AddAll(<<>>, scratch), table)))]_vars
GlobalAppendOnly == [][phase = "load" => AppendOnly(table, table')]_vars
DecodeAfterLoad == reenc = Ranks /\ Ranks # {} => \A r \in Ranks : Decode(table, lcol[r]) = col0[r]
\* the observable result is a function of the input alone: whatever permutations and schedules were chosen
LocalDecode == \A r \in Ranks : (ltab[r] # <<>> /\ r \notin reenc) => Decode(ltab[r], lcol[r]) = col0[r]
\* for the replay: print the history once it has EmitAt entries
Emit == (Len(log) = EmitAt) => PrintT("@@E " \o ToJson(log))
=============================================================================
