SPECIFICATION Spec
CONSTANTS
  N = 3
  L = 1
INVARIANT Selection
INVARIANT FoldMeaning
INVARIANT Idempotent
INVARIANT Commute
CHECK_DEADLOCK FALSE
