SPECIFICATION Spec
CONSTANTS
  TS = 3
  DS = 3
  Skews = {99, 1}
  ShiftEnd = TRUE
INVARIANT Faithful
INVARIANT MinTsMeaning
INVARIANT EndIsTsPlusDur
INVARIANT NoTrimNoLoss
INVARIANT Rounding
INVARIANT TrimMeaning
INVARIANT IterMeaning
CHECK_DEADLOCK FALSE
