----------------------------- MODULE Trace_Load -----------------------------
(***************************************************************************)
(* Trace validation for the loader (C01, C02, C12).  A record holds the    *)
(* abstract content of the rank files, the frames returned by              *)
(* Trace.parse_traces() (sequential and process-pool), the frames after    *)
(* TraceAnalysis(...) / Trace.load_traces(), Trace.min_ts, and the         *)
(* iteration lists the public getters return.                              *)
(***************************************************************************)
EXTENDS Load, Json, IOUtils

Recs == ndJsonDeserialize(IOEnv.OBS_FILE)
VARIABLE i

Core(r) == [id |-> r.id, ts |-> r.ts, dur |-> r.dur, end |-> r.end, pid |-> r.pid, tid |-> r.tid,
            stream |-> r.stream, corr |-> r.corr, name |-> r.name, cat |-> r.cat]
Rows(fr) == Range(fr.rows)
Ids(S) == { x.id : x \in S }
NoDupIds(fr) == Cardinality(Ids(Rows(fr))) = Len(fr.rows)
ById(S, id) == CHOOSE x \in S : x.id = id
Idx(r) == DOMAIN r.files
Entries(r, k) == Range(r.files[k].entries)
Img(r, k) == Image(Entries(r, k), r.u)
FilesAsSets(r) == [k \in Idx(r) |-> Entries(r, k)]
Shift(row, m) == [row EXCEPT !.ts = @ - m, !.end = @ - m]

ParseOK(r, frames) ==
    \A k \in Idx(r) : /\ NoDupIds(frames[k])
                      /\ { Core(x) : x \in Rows(frames[k]) } = Img(r, k)

ParsedRows(r) == [k \in Idx(r) |-> Rows(r.parsed[k])]

C01(r) ==
  IF r.err # "" THEN [no_exception |-> FALSE] ELSE
  LET m == MinTs(FilesAsSets(r), r.u)
      trims == Trims(ParsedRows(r))
  IN
  [ no_exception    |-> TRUE,
    parse_rows      |-> \A k \in Idx(r) : NoDupIds(r.parsed[k]) /\ Ids(Rows(r.parsed[k])) = Ids(Img(r, k)),
    parse_fields    |-> ParseOK(r, r.parsed),
    parse_mp_same   |-> ParseOK(r, r.parsedmp),
    min_ts          |-> r.minTs = m,
    load_rows       |-> \A k \in Idx(r) : /\ NoDupIds(r.loaded[k])
                                          /\ Ids(Rows(r.loaded[k])) \subseteq Ids(Img(r, k))
                                          /\ ~trims => Ids(Rows(r.loaded[k])) = Ids(Img(r, k)),
    load_fields     |-> \A k \in Idx(r) : \A x \in Rows(r.loaded[k]) :
                            \E y \in Img(r, k) : y.id = x.id /\ [Core(x) EXCEPT !.end = 0] = [Shift(y, m) EXCEPT !.end = 0],
    load_end        |-> \A k \in Idx(r) : \A x \in Rows(r.loaded[k]) : x.end = x.ts + x.dur,
    earliest_zero   |-> ~trims => SetMin(UNION { { x.ts : x \in Rows(r.loaded[k]) } : k \in Idx(r) }) = 0,
    round_inward    |-> \A k \in Idx(r) : \A x \in Rows(r.parsed[k]) :
                            LET e == ById(Entries(r, k), x.id)
                            IN x.ts * r.u >= e.ts /\ x.end * r.u <= e.ts + e.dur ]

LinksOK(R) == \A e \in R : e.link = LinkOf(R, e)
MutualOK(R) == \A e \in R : e.link > 0 =>
                  \E p \in R : /\ p.id = e.link /\ p.link = e.id
                               /\ Side(p) # Side(e) /\ p.corr = e.corr
SentinelOK(R) == \A e \in R : /\ (e.link = -1) <=> (e.corr < 0)
                              /\ (e.link = 0) => (e.corr >= 0 /\ Partners(R, e) = {})
                              /\ e.link >= -1

C02(r) ==
  IF r.err # "" THEN [no_exception |-> FALSE] ELSE
  [ no_exception  |-> TRUE,
    in_domain     |-> \A k \in Idx(r) : WellFormed(Rows(r.parsed[k])),
    \* the rows whose links are judged still carry the file's correlation id, stream and name (C01's business, needed here to tell a
    \* wrong parser from an input outside the domain)
    input_faithful |-> \A k \in Idx(r) : \A x \in Rows(r.parsed[k]) :
                          \E e \in Entries(r, k) : e.id = x.id /\ e.corr = x.corr /\ e.stream = x.stream /\ e.name = x.name,
    link_parsed   |-> \A k \in Idx(r) : LinksOK(Rows(r.parsed[k])),
    link_loaded   |-> \A k \in Idx(r) : LinksOK(Rows(r.loaded[k])),
    mutual        |-> \A k \in Idx(r) : MutualOK(Rows(r.parsed[k])) /\ MutualOK(Rows(r.loaded[k])),
    sentinel      |-> \A k \in Idx(r) : SentinelOK(Rows(r.parsed[k])) /\ SentinelOK(Rows(r.loaded[k])) ]

IterAsserted(e) == e.name \notin DeviceWideSync
IterOK(R, S) == \A x \in S : IterAsserted(x) => x.iter = IterOf(R, ById(R, x.id))
SeqToSet(s) == Range(s)
IsSortedSeq(s) == \A a \in 1..(Len(s) - 1) : s[a] < s[a + 1]

C12(r) ==
  IF r.err # "" THEN [no_exception |-> FALSE] ELSE
  LET P == ParsedRows(r)
      trims == Trims(P)
  IN
  [ no_exception   |-> TRUE,
    in_domain      |-> /\ \A k \in Idx(r) : WellFormed(P[k])
                       /\ StepsWellFormed(P),
    iter_parsed    |-> \A k \in Idx(r) : IterOK(P[k], P[k]),
    iter_loaded    |-> \A k \in Idx(r) : IterOK(P[k], Rows(r.loaded[k])),
    kept_set       |-> \A k \in Idx(r) : Ids(Rows(r.loaded[k])) =
                            IF trims THEN Ids(Kept(P[k], r.incl)) ELSE Ids(P[k]),
    iterations     |-> \A k \in Idx(r) :
                          /\ IsSortedSeq(r.iters[k])
                          /\ SeqToSet(r.iters[k]) = { x.iter : x \in Rows(r.loaded[k]) } \ {-1},
    profiler_steps |-> /\ IsSortedSeq(r.steps)
                       /\ SeqToSet(r.steps) = UNION { { StepNo(x.name) : x \in Steps(Rows(r.loaded[k])) } : k \in Idx(r) } ]

Clauses(r) == CASE r.prop = "C01" -> C01(r)
                [] r.prop = "C02" -> C02(r)
                [] r.prop = "C12" -> C12(r)

Verdict(r) == LET c == Clauses(r) IN { k \in DOMAIN c : ~c[k] }

Init == i = 1
Next == /\ i <= Len(Recs)
        /\ PrintT(<<"@@V", Recs[i].id, Verdict(Recs[i])>>)
        /\ i' = i + 1
Spec == Init /\ [][Next]_i
=============================================================================
