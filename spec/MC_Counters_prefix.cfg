SPECIFICATION Spec
CONSTANTS
  NI = 2
  T = 2
  Keys = {7, 9}
  Weights = {1, 2}
  PlusFirst = FALSE
  AllowEqual = TRUE
INVARIANT NonNeg
INVARIANT EndOfInstant
INVARIANT EndsAtZero
CHECK_DEADLOCK FALSE
