SPECIFICATION Spec
CONSTANTS
  Vocab = {"a", "b", "c"}
  MaxOps = 0
  Ranks = {0, 1, 2}
  EmitAt = 99
VIEW view
INVARIANT BijectionInv
INVARIANT DecodeAfterLoad
INVARIANT LocalDecode
PROPERTY GlobalAppendOnly
CHECK_DEADLOCK FALSE
