SPECIFICATION Spec
CONSTANTS
  Vocab = {"a", "b", "c"}
  MaxOps = 3
  Ranks = {}
  EmitAt = 99
VIEW view
INVARIANT BijectionInv
PROPERTY AppendOnlyStep
CHECK_DEADLOCK FALSE
