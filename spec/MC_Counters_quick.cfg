SPECIFICATION Spec
CONSTANTS
  NI = 3
  T = 3
  Keys = {7, 9}
  Weights = {1, 2}
  PlusFirst = TRUE
  AllowEqual = TRUE
INVARIANT NonNeg
INVARIANT EndOfInstant
INVARIANT EndsAtZero
INVARIANT SummaryMeaning
CHECK_DEADLOCK FALSE
