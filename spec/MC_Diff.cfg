SPECIFICATION Spec
CONSTANTS
  N = 3
  M = 3
INVARIANT Disjoint
INVARIANT Covering
INVARIANT Meaning
INVARIANT SelfCompare
CHECK_DEADLOCK FALSE
