--------------------------- MODULE Trace_CallStack ---------------------------
(***************************************************************************)
(* Trace validation for the call stack (C03), the call-graph attributes    *)
(* (C13) and the frequent kernel sequences (C16).                          *)
(***************************************************************************)
EXTENDS CallGraphAttrs, Json, IOUtils, TLC

Recs == ndJsonDeserialize(IOEnv.OBS_FILE)
VARIABLE i

\* a builder result: sequence of [id, par, dep]
ResIds(res) == { res[j].id : j \in DOMAIN res }
Once(S, res) == Len(res) = Cardinality(ResIds(res)) /\ ResIds(res) = { e.id : e \in S }
Norm(p) == IF p < 0 THEN Root ELSE p
ParFn(res) == [id \in ResIds(res) |-> Norm(res[CHOOSE j \in DOMAIN res : res[j].id = id].par)]
DepFn(res) == [id \in ResIds(res) |-> res[(CHOOSE j \in DOMAIN res : res[j].id = id)].dep]
ParentsClosed(res) == \A j \in DOMAIN res : Norm(res[j].par) = Root \/ Norm(res[j].par) \in ResIds(res)

\* the call graph links threads to each other (top-level autograd operators hang beneath an annotation of the main thread, C13): for the
\* per-thread clauses such a parent counts as the thread's root
Local(res) == [j \in DOMAIN res |-> [res[j] EXCEPT !.par = IF Norm(@) \in ResIds(res) THEN @ ELSE -1]]
Linked(res) == \E j \in DOMAIN res : Norm(res[j].par) # Root /\ Norm(res[j].par) \notin ResIds(res)

Threads(r) == Range(r.threads)
Ev(th) == Range(th.events)

\* clause family for one builder; `pick` selects that builder's result and error from a thread record
EachThread(r, P(_)) == \A th \in Threads(r) : P(th)

\* the whole forest of a rank as the call graph left it (threads linked to each other included): depth = number of ancestors
RankThreads(r, k) == { th \in Threads(r) : th.rank = k }
RankIds(r, k, pick(_)) == UNION { ResIds(pick(th)) : th \in RankThreads(r, k) }
RankPar(r, k, pick(_)) == [id \in RankIds(r, k, pick) |->
                             LET th == CHOOSE t \in RankThreads(r, k) : id \in ResIds(pick(t)) IN ParFn(pick(th))[id]]
RankDep(r, k, pick(_)) == [id \in RankIds(r, k, pick) |->
                             LET th == CHOOSE t \in RankThreads(r, k) : id \in ResIds(pick(t)) IN DepFn(pick(th))[id]]
ForestDepthOK(r, pick(_)) ==
    \A k \in { th.rank : th \in Threads(r) } :
        (\A th \in RankThreads(r, k) : Once(Ev(th), pick(th))) =>
            LET par == RankPar(r, k, pick)  dep == RankDep(r, k, pick) IN
            \A id \in DOMAIN par : (par[id] = Root \/ par[id] \in DOMAIN par) => dep[id] = NumAncestors(par, id)

C03(r) ==
  [ in_domain          |-> EachThread(r, LAMBDA th : Laminar(Ev(th))),
    new_no_exception   |-> EachThread(r, LAMBDA th : th.newErr = ""),
    new_every_event_once |-> EachThread(r, LAMBDA th : th.newErr = "" => (Once(Ev(th), th.new) /\ ParentsClosed(th.new))),
    new_parent_positive|-> EachThread(r, LAMBDA th : (th.newErr = "" /\ Once(Ev(th), th.new)) => PositiveParents(Ev(th), ParFn(th.new))),
    new_zero_parent    |-> EachThread(r, LAMBDA th : (th.newErr = "" /\ Once(Ev(th), th.new)) => ZeroParents(Ev(th), ParFn(th.new))),
    new_depth          |-> EachThread(r, LAMBDA th : (th.newErr = "" /\ Once(Ev(th), th.new) /\ ParentsClosed(th.new)) => DepthOK(Ev(th), ParFn(th.new), DepFn(th.new))),
    old_no_exception   |-> EachThread(r, LAMBDA th : th.oldErr = ""),
    old_every_event_once |-> EachThread(r, LAMBDA th : th.oldErr = "" => (Once(Ev(th), th.old) /\ ParentsClosed(th.old))),
    old_parent_positive|-> EachThread(r, LAMBDA th : (th.oldErr = "" /\ Once(Ev(th), th.old)) => PositiveParents(Ev(th), ParFn(th.old))),
    old_zero_parent    |-> EachThread(r, LAMBDA th : (th.oldErr = "" /\ Once(Ev(th), th.old)) => ZeroParents(Ev(th), ParFn(th.old))),
    old_depth          |-> EachThread(r, LAMBDA th : (th.oldErr = "" /\ Once(Ev(th), th.old) /\ ParentsClosed(th.old)) => DepthOK(Ev(th), ParFn(th.old), DepFn(th.old))),
    cg_no_exception    |-> r.cgErr = "",
    cg_every_event_once|-> r.cgErr = "" => EachThread(r, LAMBDA th : Once(Ev(th), th.cg) /\ ParentsClosed(Local(th.cg))),
    cg_parent_positive |-> r.cgErr = "" => EachThread(r, LAMBDA th : Once(Ev(th), th.cg) => PositiveParents(Ev(th), ParFn(Local(th.cg)))),
    cg_zero_parent     |-> r.cgErr = "" => EachThread(r, LAMBDA th : Once(Ev(th), th.cg) => ZeroParents(Ev(th), ParFn(Local(th.cg)))),
    cgn_every_event_once |-> r.cgErr = "" => EachThread(r, LAMBDA th : Once(Ev(th), th.cgn) /\ ParentsClosed(Local(th.cgn))),
    cgn_parent_positive  |-> r.cgErr = "" => EachThread(r, LAMBDA th : Once(Ev(th), th.cgn) => PositiveParents(Ev(th), ParFn(Local(th.cgn)))),
    cgn_zero_parent      |-> r.cgErr = "" => EachThread(r, LAMBDA th : Once(Ev(th), th.cgn) => ZeroParents(Ev(th), ParFn(Local(th.cgn)))),
    cgn_depth            |-> r.cgErr = "" => EachThread(r, LAMBDA th : (Once(Ev(th), th.cgn) /\ ~Linked(th.cgn)) => DepthOK(Ev(th), ParFn(th.cgn), DepFn(th.cgn))),
    cg_depth_forest    |-> r.cgErr = "" => ForestDepthOK(r, LAMBDA th : th.cg),
    cgn_depth_forest   |-> r.cgErr = "" => ForestDepthOK(r, LAMBDA th : th.cgn),
    cg_depth           |-> r.cgErr = "" => EachThread(r, LAMBDA th : (Once(Ev(th), th.cg) /\ ~Linked(th.cg)) => DepthOK(Ev(th), ParFn(th.cg), DepFn(th.cg))) ]

C03Tags(r) == (IF \E th \in Threads(r) : ZeroAtTouch(Ev(th)) THEN {"shape:zero_at_touch"} ELSE {}) \cup
              (IF \E th \in Threads(r) : ZeroPair(Ev(th)) THEN {"shape:zero_pair"} ELSE {})

\* ---- C13
RowsOf(rk) == Range(rk.rows)
AllRanks(r, P(_)) == \A rk \in Range(r.ranks) : P(rk)
StackOK(rk) == \A j \in DOMAIN rk.stacks :
                  LET e == RowById(RowsOf(rk), rk.stacks[j].id) IN
                  Range(rk.stacks[j].ids) = { e.id } \cup { d.id : d \in Descendants(RowsOf(rk), e) }
C13(r) ==
  IF r.err # "" THEN [no_exception |-> FALSE] ELSE
  [ no_exception    |-> TRUE,
    in_domain       |-> AllRanks(r, LAMBDA rk : WellFormedRows(RowsOf(rk))),
    input_faithful  |-> AllRanks(r, LAMBDA rk : RowsFaithful(RowsOf(rk), Range(rk.file)) /\ LinksFaithful(RowsOf(rk), Range(rk.file))),
    device_parent   |-> AllRanks(r, LAMBDA rk : DeviceParentOK(RowsOf(rk))),
    host_parent     |-> AllRanks(r, LAMBDA rk : HostParentsOK(RowsOf(rk))),
    depth           |-> AllRanks(r, LAMBDA rk : DepthAgrees(RowsOf(rk))),
    height          |-> AllRanks(r, LAMBDA rk : HeightAgrees(RowsOf(rk))),
    num_kernels     |-> AllRanks(r, LAMBDA rk : NumKernelsOK(RowsOf(rk))),
    kernel_dur_sum  |-> AllRanks(r, LAMBDA rk : KernelSumOK(RowsOf(rk))),
    first_kernel_start |-> AllRanks(r, LAMBDA rk : KernelFirstOK(RowsOf(rk))),
    last_kernel_end |-> AllRanks(r, LAMBDA rk : KernelLastOK(RowsOf(rk))),
    kernel_span     |-> AllRanks(r, LAMBDA rk : KernelSpanOK(RowsOf(rk))),
    bwd_link        |-> AllRanks(r, LAMBDA rk : BwdLinkOK(RowsOf(rk))),
    stack_of_node   |-> AllRanks(r, LAMBDA rk : StackOK(rk)) ]
C13Tags(r) == IF \E rk \in Range(r.ranks) : \E th \in HostThreads(RowsOf(rk)) : ZeroAtTouch(ThreadRows(RowsOf(rk), th))
              THEN {"shape:zero_at_touch"} ELSE {}

\* ---- C16
C16(r) ==
  IF r.err # "" THEN [no_exception |-> FALSE] ELSE
  LET R == Range(r.rows)
      P == Patterns(R, r.minLen)
      out == r.out
  IN
  [ no_exception |-> TRUE,
    in_domain    |-> WellFormedRows(R) /\ DistinctStarts(R, r.minLen),
    input_faithful |-> RowsFaithful(R, Range(r.file)) /\ LinksFaithful(R, Range(r.file)),
    \* the call tree the sequences are read from (C13): device activities hang beneath the call that launched them, host events beneath
    \* their innermost enclosing host event
    input_tree   |-> DeviceParentOK(R) /\ HostParentsOK(R),
    patterns     |-> { out[j].pattern : j \in DOMAIN out } = P /\ Len(out) = Cardinality(P),
    counts       |-> \A j \in DOMAIN out : out[j].pattern \in P => out[j].count = PatCount(R, r.minLen, out[j].pattern),
    cpu_duration |-> \A j \in DOMAIN out : out[j].pattern \in P => out[j].cpu = PatCpu(R, r.minLen, out[j].pattern),
    gpu_duration |-> \A j \in DOMAIN out : out[j].pattern \in P => out[j].gpu = PatGpu(R, r.minLen, out[j].pattern),
    order        |-> \A j \in 1..(Len(out) - 1) : out[j].count >= out[j + 1].count ]

Clauses(r) == CASE r.prop = "C03" -> C03(r)
                [] r.prop = "C13" -> C13(r)
                [] r.prop = "C16" -> C16(r)
Tags(r) == CASE r.prop = "C03" -> C03Tags(r)
             [] r.prop = "C13" -> C13Tags(r)
             [] OTHER -> {}
Verdict(r) == LET c == Clauses(r)
                  f == { k \in DOMAIN c : ~c[k] }
              IN IF f = {} THEN {} ELSE f \cup Tags(r)

Init == i = 1
Next == /\ i <= Len(Recs)
        /\ PrintT(<<"@@V", Recs[i].id, Verdict(Recs[i])>>)
        /\ i' = i + 1
Spec == Init /\ [][Next]_i
=============================================================================
