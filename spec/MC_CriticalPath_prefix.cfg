SPECIFICATION Spec
CONSTANTS
  NC = 3
  T = 3
  ZeroLaunch = FALSE
  Guard = FALSE
  EmitOn = FALSE
INVARIANT GraphAcyclic
INVARIANT GraphForward
INVARIANT GraphWeights
INVARIANT LaunchShape
INVARIANT K2KShape
INVARIANT SyncShape
CHECK_DEADLOCK FALSE
