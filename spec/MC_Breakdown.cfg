SPECIFICATION Spec
CONSTANTS
  N = 3
  T = 3
  D = 2
INVARIANT InvMerge
INVARIANT InvSweep
INVARIANT C04_Partition
INVARIANT C05_TypeTable
INVARIANT C07_Overlap
CHECK_DEADLOCK FALSE
