---------------------------- MODULE MC_TraceFiles ----------------------------
(***************************************************************************)
(* C20 model: what the tool may do to a trace file.  A file is a sequence  *)
(* of interned entries plus a metadata record; the four writers are        *)
(* actions on a set of files:                                              *)
(*   WithCounters  source entries followed by counter entries              *)
(*   Overlay       (only, critical set, drawn edges): the critical marker  *)
(*                 is set on exactly the critical entries, non-critical    *)
(*                 'X' entries are dropped iff only, one s/f pair per edge *)
(*   RoundTrip     write_trace then read_trace                             *)
(*   UpdateRank    only distributedInfo.rank changes                       *)
(* Every file ever produced is checked against the operators the trace     *)
(* validation uses (OnlyAppended, MarkedExactly, Filter, FlowPairs).       *)
(***************************************************************************)
EXTENDS TraceFiles, TLC, SequencesExt
CONSTANTS N

Entry == [e : 1..2, ph : {"X", "M"}, keep : BOOLEAN, pid : {0, 5}, tid : {5}]
Sources == UNION { [1..n -> Entry] : n \in 1..N }
VARIABLES src, rank, made
vars == <<src, rank, made>>

Init == src \in Sources /\ rank \in {0, 7} /\ made = {}
WithCounters == \E n \in 0..2 :
    made' = { [kind |-> "wc", out |-> [k \in 1..(Len(src) + n) |-> IF k <= Len(src) THEN [e |-> src[k].e, ph |-> src[k].ph, crit |-> FALSE]
                                                                             ELSE [e |-> 9, ph |-> "C", crit |-> FALSE]]] }
    /\ UNCHANGED <<src, rank>>
Overlay == \E only \in BOOLEAN, crit \in SUBSET { k - 1 : k \in { j \in DOMAIN src : src[j].ph = "X" } },
              edges \in SUBSET ({ k \in DOMAIN src : src[k].ph = "X" } \X { k \in DOMAIN src : src[k].ph = "X" }) :
    LET keepIdx == { k \in DOMAIN src : ~only \/ src[k].ph # "X" \/ src[k].keep \/ (k - 1) \in crit }
        sel == SelectSeq([k \in DOMAIN src |-> k], LAMBDA k : k \in keepIdx)
        out == [j \in DOMAIN sel |-> [e |-> src[sel[j]].e, ph |-> src[sel[j]].ph, crit |-> (sel[j] - 1) \in crit, keep |-> src[sel[j]].keep]]
        es == SetToSeq(edges)
        flows == [j \in 1..(2 * Len(es)) |-> LET q == es[(j + 1) \div 2] IN
                     [id |-> (j + 1) \div 2, ph |-> IF j % 2 = 1 THEN "s" ELSE "f",
                      pid |-> src[IF j % 2 = 1 THEN q[1] ELSE q[2]].pid, tid |-> src[IF j % 2 = 1 THEN q[1] ELSE q[2]].tid]]
    IN made' = { [kind |-> "ov", only |-> only, critical |-> crit, out |-> out, flows |-> flows,
                            edges |-> [j \in DOMAIN es |-> [pu |-> src[es[j][1]].pid, tu |-> src[es[j][1]].tid, pv |-> src[es[j][2]].pid, tv |-> src[es[j][2]].tid]]] }
       /\ UNCHANGED <<src, rank>>
RoundTrip == made' = { [kind |-> "rt", out |-> src, rank |-> rank] } /\ UNCHANGED <<src, rank>>
UpdateRank == \E r \in {0, 3, 1000} : rank' = r /\ made' = { [kind |-> "ru", out |-> src, rank |-> r] } /\ UNCHANGED src
Next == WithCounters \/ Overlay \/ RoundTrip \/ UpdateRank
Spec == Init /\ [][Next]_vars
Small == TRUE

CountersAppendOnly == \A f \in made : f.kind = "wc" => OnlyAppended(src, f.out, {"C"})
OverlayKeepsEvents == \A f \in made : f.kind = "ov" =>
                         IF f.only THEN Ids(f.out) = Filter(src, 1, f.critical) ELSE (Ids(f.out) = Ids(src) /\ MarkedExactly(src, f.out, f.critical))
OverlayFlows == \A f \in made : f.kind = "ov" => FlowPairs(f.flows, f.edges) /\ FlowPlacement(f.flows, f.edges)
FilesKeepEvents == \A f \in made : f.kind \in {"rt", "ru"} => f.out = src
=============================================================================
