----------------------------- MODULE Trace_Files -----------------------------
(***************************************************************************)
(* Trace validation for C20 (records produced from files the real tool     *)
(* wrote: *_with_counters, overlaid_critical_path_*, write_trace /         *)
(* read_trace / update_trace_rank, create_rank_to_trace_dict).             *)
(***************************************************************************)
EXTENDS TraceFiles, Json, IOUtils, TLC

Recs == ndJsonDeserialize(IOEnv.OBS_FILE)
VARIABLE i

Overlay(r) ==
  [ no_exception   |-> r.err = "",
    counters_only_append |-> r.err = "" => (r.hasWc => OnlyAppended(r.src, r.wc, {"C"})),
    overlay_events |-> r.err = "" => \A o \in Rng(r.ov) :
                          IF o.only THEN Ids(o.out) = Filter(r.src, 1, Rng(o.critical))
                          ELSE Ids(o.out) = Ids(r.src),
    overlay_marked |-> r.err = "" => \A o \in Rng(r.ov) : ~o.only => MarkedExactly(r.src, o.out, Rng(o.critical)),
    overlay_marked_only |-> r.err = "" => \A o \in Rng(r.ov) : o.only =>
                               \A k \in DOMAIN o.out : (o.out[k].ph = "X" /\ ~o.out[k].keep) => o.out[k].crit,
    \* identity, not only position: the source entry at the position named by a critical event id is the event the analysis meant
    critical_identity |-> r.err = "" => \A x \in Rng(r.critRows) : x.id + 1 \in DOMAIN r.src /\ r.src[x.id + 1].name = x.name,
    flow_pairs     |-> r.err = "" => \A o \in Rng(r.ov) : FlowPairs(o.flows, o.edges),
    flow_placement |-> r.err = "" => \A o \in Rng(r.ov) : FlowPlacement(o.flows, o.edges) ]

Files(r) ==
  [ no_exception |-> r.err = "",
    roundtrip    |-> r.err = "" => \A x \in Rng(r.rt) : x.after = x.before,
    rank_update  |-> r.err = "" => \A x \in Rng(r.ru) : x.restAfter = x.restBefore /\ x.rankAfter = x.want,
    rank_discovery |-> r.err = "" => /\ r.disc.ok
                                     /\ { <<p[1], p[2]>> : p \in Rng(r.disc.got) } = { <<p[1], p[2]>> : p \in Rng(r.disc.want) },
    \* history: the files rewritten by update_trace_rank are discovered under their new ranks
    rank_discovery_after_update |-> r.err = "" => /\ r.disc2.ok
                                     /\ { <<p[1], p[2]>> : p \in Rng(r.disc2.got) } = { <<p[1], p[2]>> : p \in Rng(r.disc2.want) } ]

\* one call for several ranks: every file that was written starts with ITS OWN rank's source events, only counter events appended
WcMulti(r) ==
  [ no_exception |-> r.err = "",
    counters_only_append_each |-> r.err = "" => \A f \in Rng(r.files) : f.hasWc => OnlyAppended(f.src, f.wc, {"C"}),
    \* the metadata survives too: rank discovery over the written files finds each one under the rank of its source
    written_keeps_rank |-> r.err = "" => \A f \in Rng(r.files) : f.hasWc => f.disc = f.rank ]

Clauses(r) == IF r.kind = "overlay" THEN Overlay(r) ELSE IF r.kind = "wcmulti" THEN WcMulti(r) ELSE Files(r)
Verdict(r) == LET c == Clauses(r) IN { k \in DOMAIN c : ~c[k] }
Init == i = 1
Next == /\ i <= Len(Recs)
        /\ PrintT(<<"@@V", Recs[i].id, Verdict(Recs[i])>>)
        /\ i' = i + 1
Spec == Init /\ [][Next]_i
=============================================================================
