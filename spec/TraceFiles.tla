------------------------------ MODULE TraceFiles ------------------------------
(***************************************************************************)
(* C20: trace files written by the tool.                                   *)
(* A file is a sequence of entries; the harness canonicalises every JSON   *)
(* entry (sorted keys; for overlay output the added args.critical marker   *)
(* is split off) and interns it: equal numbers = equal entries.            *)
(*   src   : sequence of [e, pid, tid, ph, keep] -- e the interned entry   *)
(*   out   : sequence of [e, crit, ph]                                     *)
(***************************************************************************)
EXTENDS Integers, Sequences, FiniteSets

Rng(s) == { s[k] : k \in DOMAIN s }
Ids(s) == [k \in DOMAIN s |-> s[k].e]
IsPrefixOf(a, b) == Len(a) <= Len(b) /\ \A k \in DOMAIN a : b[k] = a[k]
Tail_(s, n) == [k \in 1..(Len(s) - n) |-> s[k + n]]

\* the tool only appends: the source entries come first, unchanged and in order; what follows has one of the allowed phases
OnlyAppended(src, out, phases) ==
    /\ IsPrefixOf(Ids(src), Ids(out))
    /\ \A k \in (Len(src) + 1)..Len(out) : out[k].ph \in phases

\* overlay with every event kept: positions marked critical are exactly the critical events
MarkedExactly(src, out, critical) ==
    \A k \in DOMAIN src : k <= Len(out) => (out[k].crit <=> (k - 1) \in critical)

\* overlay showing only critical events: an order-preserving selection of the source
RECURSIVE Filter(_, _, _)
Filter(src, k, critical) ==
    IF k > Len(src) THEN <<>>
    ELSE (IF src[k].ph # "X" \/ src[k].keep \/ (k - 1) \in critical THEN <<src[k].e>> ELSE <<>>) \o Filter(src, k + 1, critical)

\* flow events: flows = sequence of [id, ph, pid, tid]; edges = sequence of [pu, tu, pv, tv] (one per drawn edge)
FlowPairs(flows, edges) ==
    /\ Len(flows) = 2 * Len(edges)
    /\ \A k \in 1..Len(edges) :
          /\ flows[2 * k - 1].ph = "s" /\ flows[2 * k].ph = "f"
          /\ flows[2 * k - 1].id = flows[2 * k].id
    /\ \A a, b \in 1..Len(edges) : a # b => flows[2 * a].id # flows[2 * b].id
\* as multisets, the (pid, tid) pairs of the flow arrows are those of the drawn edges
Count(seq, x) == Cardinality({ k \in DOMAIN seq : seq[k] = x })
FlowPlacement(flows, edges) ==
    LET arrows == [k \in 1..(Len(flows) \div 2) |-> [pu |-> flows[2 * k - 1].pid, tu |-> flows[2 * k - 1].tid,
                                                      pv |-> flows[2 * k].pid, tv |-> flows[2 * k].tid]]
    IN \A x \in Rng(arrows) \cup Rng(edges) : Count(arrows, x) = Count(edges, x)
=============================================================================
