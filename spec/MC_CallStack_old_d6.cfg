SPECIFICATION Spec
CONSTANTS
  N = 3
  T = 3
  Builder = "old"
  ExcludeTouch = FALSE
  U = 1
  EmitOn = FALSE
  TruncEnd = FALSE
  ExcludeZeroPairs = FALSE
INVARIANT TotalOrder
INVARIANT Sortable
INVARIANT LIFO
INVARIANT TreeOK
CHECK_DEADLOCK FALSE
