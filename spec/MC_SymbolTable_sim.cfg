SPECIFICATION Spec
CONSTANTS
  Vocab = {"a", "b", "c", "d"}
  MaxOps = 5
  Ranks = {}
  EmitAt = 5
INVARIANT BijectionInv
INVARIANT Emit
CHECK_DEADLOCK FALSE
