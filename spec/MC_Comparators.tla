--------------------------- MODULE MC_Comparators ---------------------------
(***************************************************************************)
(* Binding of the comparator transcriptions (CallStack.tla: LessNew,       *)
(* CmpOld) to the code: TLC enumerates EVERY ordered pair of endpoints     *)
(* over a small domain (two ids, durations 0..2, open/close, times 0..1,   *)
(* with time = start or end consistent with kind being irrelevant for a    *)
(* comparator) and prints the transcription's answer; the harness calls    *)
(* trace_call_stack._less_than and call_stack.compare_events on the same   *)
(* pair.  One implementation test per point of the comparators' domain.    *)
(***************************************************************************)
EXTENDS CallStack, TLC, Json
Endpoint == [id : {1, 2}, dur : 0..2, kind : {"open", "close"}, time : 0..1]
VARIABLE pair
Init == pair \in Endpoint \X Endpoint
Next == UNCHANGED pair
Spec == Init /\ [][Next]_pair
Sign(n) == IF n < 0 THEN -1 ELSE IF n > 0 THEN 1 ELSE 0
Emit == PrintT("@@E " \o ToJson([x |-> pair[1], y |-> pair[2], lessNew |-> LessNew(pair[1], pair[2]), cmpOld |-> Sign(CmpOld(pair[1], pair[2]))]))
=============================================================================
