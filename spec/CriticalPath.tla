---------------------------- MODULE CriticalPath ----------------------------
(***************************************************************************)
(* C08 / C09 / C10: the critical-path graph of one rank.                   *)
(*                                                                         *)
(* R      rows of the analysed (clipped) frame                             *)
(*        [id, ts, dur, pid, tid, stream, corr, link, name, cat]           *)
(* Nodes  sequence of [idx, ev, ts, start]  (idx = position - 1)           *)
(* Edges  set of [u, v, w, gw, type]; w = weight of the edge object,       *)
(*        gw = weight the path algorithm uses; type in                     *)
(*        {"op", "dep", "launch", "k2k", "sync"}                           *)
(***************************************************************************)
EXTENDS Counters

BlockingCalls == {"cudaDeviceSynchronize", "cudaStreamSynchronize", "cudaEventQuery", "cudaEventSynchronize",
                  "cudaMemcpy", "cudaMemcpyAsync"}
SyncCallNames == {"cudaDeviceSynchronize", "cudaStreamSynchronize", "cudaEventQuery", "cudaEventSynchronize"}
HostNodeCats == {"cpu_op", "cuda_runtime", "cuda_driver"}
Node(Nodes, n) == Nodes[n + 1]
EvOf(R, id) == CHOOSE x \in R : x.id = id
HasRow(R, id) == \E x \in R : x.id = id
IsDevRow(e) == e.stream # -1
IsKernelRow(e) == e.stream # -1 /\ e.cat # "cuda_sync"
\* events that get a pair of nodes
Analysed(R) == { e \in R : e.cat \in HostNodeCats \/ (e.stream # -1 /\ e.link >= 0) }

(***************************************************************************)
(* Input domain of C08-C10 (on the rows of the whole rank, F)              *)
(***************************************************************************)
SyncCausal(F) ==
    \A s \in { x \in F : x.name \in {"Stream Sync", "Context Sync"} /\ x.link > 0 } :
        LET h == EvOf(F, s.link) IN
        \A k \in { x \in F : IsKernelRow(x) /\ x.link > 0 /\ x.cat \in KernelCats } :
            LET l == EvOf(F, k.link) IN
            (l.ts < h.ts /\ l.ts + l.dur <= h.ts /\ (s.name = "Context Sync" \/ k.stream = s.stream)) => End(k) <= End(h)
CausallyConsistent(F) == LaunchCausal(F) /\ SyncCausal(F)

(***************************************************************************)
(* Graph well-formedness                                                   *)
(***************************************************************************)
NodeIdsOK(Nodes) == \A j \in DOMAIN Nodes : Nodes[j].idx = j - 1
StartNodes(Nodes, ev) == { j \in DOMAIN Nodes : Nodes[j].ev = ev /\ Nodes[j].start }
EndNodes(Nodes, ev) == { j \in DOMAIN Nodes : Nodes[j].ev = ev /\ ~Nodes[j].start }
OneStartOneEnd(R, Nodes) ==
    /\ \A e \in Analysed(R) : Cardinality(StartNodes(Nodes, e.id)) = 1 /\ Cardinality(EndNodes(Nodes, e.id)) = 1
    \* every node belongs to an event of the window, and an event with any node has exactly one of each kind
    /\ \A j \in DOMAIN Nodes : HasRow(R, Nodes[j].ev)
    /\ \A j \in DOMAIN Nodes : Cardinality(StartNodes(Nodes, Nodes[j].ev)) = 1 /\ Cardinality(EndNodes(Nodes, Nodes[j].ev)) = 1
NodeTimes(R, Nodes) ==
    \A j \in DOMAIN Nodes : HasRow(R, Nodes[j].ev) =>
        LET e == EvOf(R, Nodes[j].ev) IN Nodes[j].ts = IF Nodes[j].start THEN e.ts ELSE End(e)
EdgesClosed(Nodes, Edges) == \A e \in Edges : e.u \in 0..(Len(Nodes) - 1) /\ e.v \in 0..(Len(Nodes) - 1) /\ e.u # e.v
SimpleGraph(Edges) == \A a, b \in Edges : (a.u = b.u /\ a.v = b.v) => a = b
Forward(Nodes, Edges) == \A e \in Edges : Node(Nodes, e.u).ts <= Node(Nodes, e.v).ts

RECURSIVE Peel(_, _)
\* remove sources until nothing changes; acyclic iff everything can be removed
Peel(left, Edges) == LET src == { n \in left : ~\E e \in Edges : e.v = n /\ e.u \in left }
                     IN IF src = {} THEN left ELSE Peel(left \ src, Edges)
Acyclic(Nodes, Edges) == Peel(0..(Len(Nodes) - 1), Edges) = {}

Diff(Nodes, e) == Node(Nodes, e.v).ts - Node(Nodes, e.u).ts
IsBlockingEnd(R, Nodes, n) == ~Node(Nodes, n).start /\ HasRow(R, Node(Nodes, n).ev) /\ EvOf(R, Node(Nodes, n).ev).name \in BlockingCalls
WeightRule(R, Nodes, Edges, zeroLaunch) ==
    \A e \in Edges :
        CASE e.type \in {"dep", "sync"} -> e.w = 0
          [] e.type = "k2k"    -> e.w = Diff(Nodes, e)
          [] e.type = "launch" -> e.w = Diff(Nodes, e) \/ (zeroLaunch /\ e.w = 0)
          [] e.type = "op"     -> e.w = Diff(Nodes, e) \/ (e.w = 0 /\ IsBlockingEnd(R, Nodes, e.v))
          [] OTHER -> FALSE
NonNegative(Edges) == \A e \in Edges : e.w >= 0 /\ e.gw >= 0 /\ (e.gw = e.w)

(***************************************************************************)
(* Each edge type joins only what it stands for                            *)
(***************************************************************************)
EvU(R, Nodes, e) == EvOf(R, Node(Nodes, e.u).ev)
EvV(R, Nodes, e) == EvOf(R, Node(Nodes, e.v).ev)
LaunchEdgeOK(R, Nodes, e) ==
    /\ Node(Nodes, e.u).start /\ Node(Nodes, e.v).start
    /\ LET h == EvU(R, Nodes, e)  k == EvV(R, Nodes, e)
       IN ~IsDevRow(h) /\ IsKernelRow(k) /\ k.link = h.id /\ h.link = k.id
KernelsOfStream(R, s) == { k \in Analysed(R) : IsKernelRow(k) /\ k.stream = s }
K2KEdgeOK(R, Nodes, e) ==
    /\ ~Node(Nodes, e.u).start /\ Node(Nodes, e.v).start
    /\ LET a == EvU(R, Nodes, e)  b == EvV(R, Nodes, e)
       IN /\ IsKernelRow(a) /\ IsKernelRow(b) /\ a # b /\ a.stream = b.stream /\ a.ts <= b.ts
          /\ ~\E c \in KernelsOfStream(R, a.stream) : c # a /\ c # b /\ a.ts < c.ts /\ c.ts < b.ts
SyncEdgeOK(R, Nodes, e) ==
    /\ ~Node(Nodes, e.u).start
    /\ LET k == EvU(R, Nodes, e)  x == EvV(R, Nodes, e)
       IN /\ IsKernelRow(k)
          /\ \/ (~Node(Nodes, e.v).start /\ ~IsDevRow(x) /\ x.name \in SyncCallNames /\ x.link > 0)     \* GPU -> CPU
             \/ (Node(Nodes, e.v).start /\ IsKernelRow(x) /\ x.stream # k.stream)                     \* GPU -> GPU
SpanEdgeOK(R, Nodes, e) ==
    LET a == EvU(R, Nodes, e)  b == EvV(R, Nodes, e)
    IN IF IsDevRow(a) \/ IsDevRow(b) THEN a = b /\ Node(Nodes, e.u).start /\ ~Node(Nodes, e.v).start
       ELSE SameThread(a, b)
DepEdgeOK(R, Nodes, e) ==
    /\ ~Node(Nodes, e.u).start /\ Node(Nodes, e.v).start
    /\ LET a == EvU(R, Nodes, e)  b == EvV(R, Nodes, e) IN ~IsDevRow(a) /\ ~IsDevRow(b) /\ SameThread(a, b) /\ a # b
EdgeShapes(R, Nodes, Edges, ty, P(_, _, _)) == \A e \in { x \in Edges : x.type = ty } : P(R, Nodes, e)

(***************************************************************************)
(* C09: longest path by relaxation in topological layers                   *)
(***************************************************************************)
RECURSIVE Relax(_, _, _)
Relax(left, dist, Edges) ==
    LET src == { n \in left : ~\E e \in Edges : e.v = n /\ e.u \in left }
    IN IF src = {} THEN dist
       ELSE Relax(left \ src,
                  [n \in DOMAIN dist \cup src |->
                      IF n \in DOMAIN dist THEN dist[n]
                      ELSE SetMax({0} \cup { dist[e.u] + e.gw : e \in { x \in Edges : x.v = n } })],
                  Edges)
LongestWeight(Nodes, Edges) ==
    LET dist == Relax(0..(Len(Nodes) - 1), [n \in {} |-> 0], Edges)
    IN IF DOMAIN dist = {} THEN 0 ELSE SetMax({ dist[n] : n \in DOMAIN dist })
EdgeBetween(Edges, a, b) == { e \in Edges : e.u = a /\ e.v = b }
PathConnected(Edges, path) == \A j \in 1..(Len(path) - 1) : EdgeBetween(Edges, path[j], path[j + 1]) # {}
PathWeight(Edges, path) ==
    SumSeq([j \in 1..(Len(path) - 1) |-> (CHOOSE e \in EdgeBetween(Edges, path[j], path[j + 1]) : TRUE).gw])
Makespan(Nodes) == SetMax({ Nodes[j].ts : j \in DOMAIN Nodes }) - SetMin({ Nodes[j].ts : j \in DOMAIN Nodes })

(***************************************************************************)
(* C10: attribution and boundedness                                        *)
(***************************************************************************)
Covers(a, lo, hi) == a.ts <= lo /\ hi <= End(a)
BoundOf(R, type, ev) ==
    CASE type = "k2k" -> "gpu_kernel_kernel_overhead"
      [] type = "launch" -> "gpu_kernel_launch_overhead"
      [] type \in {"dep", "sync"} -> ""
      [] OTHER -> IF ~HasRow(R, ev) THEN "?" 
                  ELSE LET a == EvOf(R, ev) IN
                       IF a.stream < 0 THEN "cpu_bound"
                       ELSE IF a.name \in CommNames THEN "gpu_communication_bound" ELSE "gpu_compute_bound"
=============================================================================
