----------------------------- MODULE MC_Persist -----------------------------
(***************************************************************************)
(* C19 model: every history of at most MaxOps operations over Slots save   *)
(* slots.  Graph projections are version numbers (a Reweight produces a    *)
(* fresh version).  Invariant: whatever was restored from a slot equals    *)
(* what was saved there -- after any number of save / restore cycles,      *)
(* including saving a restored object again.  The histories are printed    *)
(* (Emit) and replayed into the real CPGraph.save / restore_cpgraph.       *)
(***************************************************************************)
EXTENDS Persist, TLC, Json
CONSTANTS Slots, MaxOps, EmitAt

VARIABLES live, disk, restored, log, fresh
vars == <<live, disk, restored, log, fresh>>
V(n) == [g |-> ToString(n), p |-> ToString(n), b |-> ToString(n), pw |-> n]

Init == live = V(0) /\ disk = [s \in Slots |-> None] /\ restored = [s \in Slots |-> None] /\ log = <<>> /\ fresh = 1
Logged(op, s, t) == log' = Append(log, [op |-> op, s |-> s, t |-> t])
Save(s) == /\ Len(log) < MaxOps /\ disk' = [disk EXCEPT ![s] = live] /\ Logged("save", s, 0) /\ UNCHANGED <<live, restored, fresh>>
Restore(s) == /\ Len(log) < MaxOps /\ disk[s] # None /\ restored' = [restored EXCEPT ![s] = disk[s]] /\ Logged("restore", s, 0)
              /\ UNCHANGED <<live, disk, fresh>>
\* critical_path() on a restored object keeps graph and path weight; with several longest paths it may settle on another one of the same
\* weight (alt), and the object then carries that path and its breakdown (what a later save of the restored object writes)
Recompute(s) == /\ Len(log) < MaxOps /\ restored[s] # None /\ Logged("recompute", s, 0)
                /\ \E alt \in BOOLEAN :
                      restored' = IF alt THEN [restored EXCEPT ![s] = [@ EXCEPT !.p = @ \o "~", !.b = @ \o "~"]] ELSE restored
                /\ UNCHANGED <<live, disk, fresh>>
SaveRestored(s, t) == /\ Len(log) < MaxOps /\ restored[s] # None /\ disk' = [disk EXCEPT ![t] = restored[s]] /\ Logged("save_restored", s, t)
                      /\ UNCHANGED <<live, restored, fresh>>
Reweight == /\ Len(log) < MaxOps /\ live' = V(fresh) /\ fresh' = fresh + 1 /\ Logged("reweight", 0, 0) /\ UNCHANGED <<disk, restored>>
Next == Reweight \/ \E s \in Slots : Save(s) \/ Restore(s) \/ Recompute(s) \/ \E t \in Slots : SaveRestored(s, t)
Spec == Init /\ [][Next]_vars

\* a restored object always equals some version that was live when it (or its ancestor) was saved, and the slot content it came from
RestoredIsSaved == \A s \in Slots : restored[s] # None => \E n \in 0..(fresh - 1) : restored[s].g = V(n).g /\ restored[s].pw = V(n).pw
\* ... and carries exactly the saved path unless a recomputation happened on it or on an ancestor
PathOnlyChangedByRecompute == (\A k \in DOMAIN log : log[k].op # "recompute") =>
                                 \A s \in Slots : restored[s] # None => \E n \in 0..(fresh - 1) : restored[s] = V(n)
DiskNeverAhead == \A s \in Slots : disk[s] # None => disk[s].pw <= live.pw
Emit == (Len(log) = EmitAt) => PrintT("@@E " \o ToJson(log))
=============================================================================
