SPECIFICATION Spec
CONSTANTS
  NC = 2
  T = 2
  ZeroLaunch = FALSE
  Guard = TRUE
  EmitOn = TRUE
INVARIANT GraphAcyclic
INVARIANT GraphForward
INVARIANT GraphWeights
INVARIANT LaunchShape
INVARIANT K2KShape
INVARIANT SyncShape
CHECK_DEADLOCK FALSE
INVARIANT EmitDone
