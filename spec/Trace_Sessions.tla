--------------------------- MODULE Trace_Sessions ---------------------------
(***************************************************************************)
(* Trace validation of interleaved histories on two real TraceAnalysis     *)
(* objects whose files share a folder.  A record: hist = the calls in      *)
(* order with a digest of what each returned (and its error text), solo =  *)
(* per object the digests of the same calls made in a fresh interpreter    *)
(* that only ever created that object, cols = derived columns per object   *)
(* after the history, checked = the calls that belong to the property      *)
(* under which the record is judged.                                       *)
(***************************************************************************)
EXTENDS Sessions, Json, IOUtils, TLC

Recs == ndJsonDeserialize(IOEnv.OBS_FILE)
VARIABLE i

H(r) == [k \in DOMAIN r.hist |-> [obj |-> r.hist[k].obj, op |-> r.hist[k].op]]
SoloOf(r, o) == IF o = "A" THEN r.soloA ELSE r.soloB
SameAsSolo(r, k) == LET s == SoloOf(r, r.hist[k].obj)
                        p == PosIn(H(r), k)
                    IN p \in DOMAIN s /\ s[p].op = r.hist[k].op /\ s[p].dig = r.hist[k].dig /\ s[p].err = r.hist[k].err
Checked(r) == { r.checked[j] : j \in DOMAIN r.checked }
Clauses(r) ==
  [ harness_ok    |-> r.err = "",
    \* the calls of the property under test return what they return when nothing else ever happened in the process
    isolated      |-> r.err = "" => \A k \in DOMAIN r.hist : r.hist[k].op \in Checked(r) => SameAsSolo(r, k),
    \* a returned result is a value: digested again after the whole history it is what it was when the call returned
    results_stable|-> r.err = "" => \A k \in DOMAIN r.hist : r.hist[k].op \in Checked(r) => r.hist[k].dig2 = r.hist[k].dig,
    \* the model's frame state per object (derived columns) is the real one
    state_isolated|-> r.err = "" => /\ { r.colsA[j] : j \in DOMAIN r.colsA } = ObjState(H(r), "A").cols \/ ObjState(H(r), "A").reparsed
                                    /\ { r.colsB[j] : j \in DOMAIN r.colsB } = ObjState(H(r), "B").cols \/ ObjState(H(r), "B").reparsed ]
Verdict(r) == LET c == Clauses(r) IN { k \in DOMAIN c : ~c[k] }
Init == i = 1
Next == /\ i <= Len(Recs)
        /\ PrintT(<<"@@V", Recs[i].id, Verdict(Recs[i])>>)
        /\ i' = i + 1
Spec == Init /\ [][Next]_i
=============================================================================
