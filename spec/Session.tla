------------------------------- MODULE Session -------------------------------
(***************************************************************************)
(* A TraceAnalysis object as a state machine.  Not one of the twenty       *)
(* properties: this is where the specification grows to cover the          *)
(* behaviour behind them -- which public calls change the shared per-rank  *)
(* frames in place, and what they may change.                              *)
(*                                                                         *)
(* State: cols = the set of derived columns present on the frames beyond   *)
(* the loader's; reparsed = the frames were re-created from the files      *)
(* (alignment / trimming / indexing undone -- finding S1).                 *)
(* Actions = public calls.  The loader's columns (id, ts, dur, end, pid,   *)
(* tid, stream, correlation, link, iteration, name, cat) are never changed *)
(* by any call except the re-parse; that is the invariant the conformance  *)
(* check evaluates on the real object after every call.                    *)
(***************************************************************************)
EXTENDS Integers, Sequences, FiniteSets

Ops == {"temporal_breakdown", "comm_comp_overlap", "kernel_breakdown", "idle_breakdown", "queue_length", "memory_bw",
        "launch_stats_mem", "launch_stats_nomem", "with_counters", "decode_names", "call_graph", "kernel_sequences",
        "user_annotations", "critical_path", "labeled_trace"}
\* the derived columns a call leaves on the frames
Adds(st, op) == CASE op = "decode_names" -> {"s_name", "s_cat"} \cup (IF "user_annotation" \in st.cols THEN {"s_user_annotation"} ELSE {})
              [] op = "call_graph"       -> {"stack"}
              [] op = "kernel_sequences" -> {"stack"}
              [] op = "user_annotations" -> {"user_annotation"}
              [] OTHER -> {}
Reparses(op) == op = "labeled_trace"

Step(st, op) == [cols |-> IF Reparses(op) THEN {} ELSE st.cols \cup Adds(st, op),
                 reparsed |-> st.reparsed \/ Reparses(op)]
Start == [cols |-> {}, reparsed |-> FALSE]

RECURSIVE After(_, _, _)
After(st, hist, k) == IF k > Len(hist) THEN st ELSE After(Step(st, hist[k]), hist, k + 1)
=============================================================================
