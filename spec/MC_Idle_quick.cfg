SPECIFICATION Spec
CONSTANTS
  K = 3
  T = 3
  D = 1
  Thrs = {1, 2}
  JoinPositiveOnly = TRUE
INVARIANT IdleMeaning
INVARIANT IdleAddsUp
INVARIANT UnlinkedNeverHostWait
CHECK_DEADLOCK FALSE
