----------------------------- MODULE MC_Session -----------------------------
(***************************************************************************)
(* Every history of at most MaxLen public calls on one TraceAnalysis       *)
(* object.  Invariants: derived columns only accumulate unless the frames  *)
(* are re-parsed; a re-parse is the only way to reach reparsed = TRUE.     *)
(* The histories are printed (Emit) and replayed on real objects; they are *)
(* also used as call prefixes by the analyzer checks.                      *)
(***************************************************************************)
EXTENDS Session, TLC, Json
CONSTANTS MaxLen, EmitAt
VARIABLES st, hist
vars == <<st, hist>>
Init == st = Start /\ hist = <<>>
Call == /\ Len(hist) < MaxLen
        /\ \E op \in Ops : st' = Step(st, op) /\ hist' = Append(hist, op)
Next == Call
Spec == Init /\ [][Next]_vars
Consistent == st = After(Start, hist, 1)
OnlyReparseResets == (~st.reparsed) => \A k \in DOMAIN hist : Adds(Start, hist[k]) \subseteq st.cols
ReparsedIffCalled == st.reparsed <=> \E k \in DOMAIN hist : Reparses(hist[k])
Monotone == [][(~Reparses(hist'[Len(hist')])) => st.cols \subseteq st'.cols]_vars
Emit == (Len(hist) = EmitAt) => PrintT("@@E " \o ToJson(hist))
\* every reachable (history, frame state): used to pick, for each distinct state of the frames, a shortest history that reaches it
SetToSeq(S) == CHOOSE f \in [1..Cardinality(S) -> S] : \A a, b \in 1..Cardinality(S) : a # b => f[a] # f[b]
EmitState == PrintT("@@E " \o ToJson([hist |-> hist, cols |-> SetToSeq(st.cols), reparsed |-> st.reparsed]))
=============================================================================
