SPECIFICATION Spec
CONSTANTS
  N = 2
INVARIANT CountersAppendOnly
INVARIANT OverlayKeepsEvents
INVARIANT OverlayFlows
INVARIANT FilesKeepEvents
CONSTRAINT Small
CHECK_DEADLOCK FALSE
