---------------------------- MODULE Trace_Filters ----------------------------
(***************************************************************************)
(* Trace validation for C18.  A record holds one event frame (rows with a  *)
(* content hash h over ALL columns), the frame as it is after every call   *)
(* (purity), and a list of applications: a sequence of filter descriptions *)
(* applied as a CompositeFilter or as nested calls, with the returned rows *)
(* (uid and content hash, in order).                                       *)
(***************************************************************************)
EXTENDS Filters, Json, IOUtils, TLC

Recs == ndJsonDeserialize(IOEnv.OBS_FILE)
VARIABLE i

FilterOf(j) == CASE j.k = "iter"    -> [k |-> "iter", its |-> Range(j.its)]
                 [] j.k = "iteridx" -> [k |-> "iteridx", idx |-> Range(j.idx)]
                 [] j.k = "rank"    -> [k |-> "rank", ranks |-> Range(j.ranks)]
                 [] j.k = "time"    -> [k |-> "time", a |-> j.a, b |-> j.b]
                 [] j.k = "name"    -> [k |-> "name", pat |-> j.pat]
                 [] j.k = "memcpy"  -> [k |-> "memcpy", type |-> j.type]
                 [] OTHER           -> [k |-> j.k]
Filters(app) == [n \in DOMAIN app.fs |-> FilterOf(app.fs[n])]
Proj(F) == [n \in DOMAIN F |-> [uid |-> F[n].uid, h |-> F[n].h]]
Expected(r, app) == Proj(Composite(Filters(app), r.frame, r.hasST))
Expected2(r, app) == Proj(Composite(Filters(app), r.frame2, r.hasST))

C18(r) ==
  [ no_exception     |-> r.err = "" /\ \A n \in DOMAIN r.apps : r.apps[n].err = "",
    known_patterns   |-> \A n \in DOMAIN r.apps : \A m \in DOMAIN r.apps[n].fs :
                            r.apps[n].fs[m].k = "name" => r.apps[n].fs[m].pat \in FilterPatterns,
    selection        |-> \A n \in DOMAIN r.apps : r.apps[n].err = "" => r.apps[n].out = Expected(r, r.apps[n]),
    \* the same filter objects applied again after the symbol table and the frame have grown
    selection_after_growth |-> \A n \in DOMAIN r.apps2 : r.apps2[n].err = "" => r.apps2[n].out = Expected2(r, r.apps2[n]),
    no_exception_after_growth |-> \A n \in DOMAIN r.apps2 : r.apps2[n].err = "",
    input_unmodified |-> r.err = "" => r.after = Proj(r.frame) ]

Verdict(r) == LET c == C18(r) IN { k \in DOMAIN c : ~c[k] }
Init == i = 1
Next == /\ i <= Len(Recs)
        /\ PrintT(<<"@@V", Recs[i].id, Verdict(Recs[i])>>)
        /\ i' = i + 1
Spec == Init /\ [][Next]_i
=============================================================================
