----------------------------- MODULE MC_CallStack -----------------------------
(***************************************************************************)
(* C03 model checking.  For EVERY properly nested family of at most N      *)
(* spans on the grid 0..T (ids = positions in the file, so every id        *)
(* assignment is covered), and for EVERY order of the endpoints that a     *)
(* comparison sort using the transcribed comparator may return:            *)
(*   - the comparator is a strict total order on the endpoints             *)
(*   - the order is sortable at all (some endpoint is minimal)             *)
(*   - the stack machine, one action per endpoint, builds the declarative  *)
(*     tree; closes always find their own event on top (LIFO)              *)
(* Builder = "new" (trace_call_stack) or "old" (call_stack, the one behind *)
(* critical-path analysis).  ExcludeTouch = TRUE leaves out the shape of   *)
(* the known finding D6 (a zero-duration event at an instant where one     *)
(* positive span ends and another begins); with FALSE, TLC exhibits it.    *)
(***************************************************************************)
EXTENDS CallStack, TLC, Json

CONSTANTS N, T, Builder, ExcludeTouch, ExcludeZeroPairs,
          U,          \* ticks per microsecond: spans start on whole microseconds (multiples of U) and end on any tick
          EmitOn,     \* TRUE: print every finished family with the order in which its endpoints were processed (replayed into sort_events)
          TruncEnd    \* TRUE: the close endpoint is computed as ts + int(dur) as the old builder did before fix 1dc194b (D22)

Spans == { sp \in [ts : 0..T, dur : 0..T] : sp.ts + sp.dur <= T }

VARIABLES fam, remaining, st, last, phase, order
vars == <<fam, remaining, st, last, phase, order>>
S == Range(fam)
Less(x, y) == IF Builder = "key" THEN LessKey(S, x, y) ELSE IF Builder = "new" THEN LessNew(x, y) ELSE LessOld(x, y)

\* the endpoints the builder sorts: exact, or with the close instant truncated to whole microseconds (pre-fix old builder)
EP(F) == IF TruncEnd
         THEN { [id |-> e.id, dur |-> e.dur, kind |-> "open",  time |-> e.ts] : e \in F } \cup
              { [id |-> e.id, dur |-> e.dur, kind |-> "close", time |-> e.ts + (e.dur \div U) * U] : e \in F }
         ELSE Endpoints(F)

\* the family is built span by span (ids = positions), only properly nested families continue: every family of at most N spans is reached
Init == fam = <<>> /\ remaining = {} /\ st = MachInit /\ last = [id |-> 0, kind |-> "none", top |-> 0] /\ phase = "build" /\ order = <<>>
AddSpan == /\ phase = "build" /\ Len(fam) < N
           /\ \E t \in { x \in 0..T : x % U = 0 }, d \in 0..T :
                 /\ t + d <= T
                 /\ Laminar(Range(fam) \cup {[id |-> Len(fam) + 1, ts |-> t, dur |-> d]}) = TRUE     \* "= TRUE": evaluate as a value, do not split the action on the disjunctions inside
                 /\ fam' = Append(fam, [id |-> Len(fam) + 1, ts |-> t, dur |-> d])
           /\ UNCHANGED <<remaining, st, last, phase, order>>
Start == /\ phase = "build" /\ Len(fam) >= 1
         /\ (ExcludeTouch => ~ZeroAtTouch(Range(fam)))
         /\ (ExcludeZeroPairs => ~ZeroPair(Range(fam)))
         /\ remaining' = EP(Range(fam)) /\ phase' = "run"
         /\ UNCHANGED <<fam, st, last, order>>

Minimal(e) == \A r \in remaining \ {e} : ~Less(r, e)
Step == /\ phase = "run" /\ remaining # {}
        /\ \E e \in remaining :
              /\ Minimal(e)
              /\ st' = MachStep(st, e)
              /\ last' = [id |-> e.id, kind |-> e.kind, top |-> IF Len(st.stack) = 0 THEN Root ELSE st.stack[Len(st.stack)]]
              /\ remaining' = remaining \ {e}
              /\ order' = Append(order, e)
        /\ UNCHANGED <<fam, phase>>
Finish == /\ phase = "run" /\ remaining = {} /\ phase' = "done" /\ UNCHANGED <<fam, remaining, st, last, order>>
Next == AddSpan \/ Start \/ Step \/ Finish
Spec == Init /\ [][Next]_vars

\* for the old comparator the "sic" branch answers 0 in one direction only; symmetrised, it must still be a strict total order
LessSym(x, y) == IF Builder = "key" THEN LessKey(S, x, y) ELSE IF Builder = "new" THEN LessNew(x, y) ELSE (CmpOld(x, y) < 0 \/ CmpOld(y, x) > 0)
TotalOrder == (phase = "run" /\ remaining = EP(S)) => IsStrictTotal(LessSym, EP(S))
Sortable == (phase = "run" /\ remaining # {}) => \E e \in remaining : Minimal(e)
\* a close pops its own event (or one with the same span: swapping identical spans is harmless)
LIFO == last.kind = "close" =>
           \/ last.top = last.id
           \/ (last.top # Root /\ \E a, b \in S : a.id = last.id /\ b.id = last.top /\ SameSpan(a, b))
\* the key order never contradicts the pairwise comparator on ADJACENT endpoints: the builder re-checks its sorted array with _less_than
\* (is_events_sorted) and raises if a neighbouring pair is out of order
AdjacentLess == \A k \in 1..(Len(order) - 1) : LessNew(order[k], order[k + 1])
Emit == (EmitOn /\ phase = "done") => PrintT("@@E " \o ToJson([fam |-> fam, order |-> order, par |-> st.par, dep |-> st.dep]))
TreeOK == phase = "done" =>
           /\ EveryEventOnce(S, st.par)
           /\ PositiveParents(S, st.par)
           /\ ZeroParents(S, st.par)
           /\ DepthOK(S, st.par, st.dep)
=============================================================================
