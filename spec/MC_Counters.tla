----------------------------- MODULE MC_Counters -----------------------------
(***************************************************************************)
(* C14: a step-function counter built from signed markers (+w when an item *)
(* goes up, -w when it goes down), rows sorted by time, cumulative sum per *)
(* key.  Queue length: item = linked launch/activity pair, up = launch     *)
(* start, down = activity start, key = stream, w = 1.  Memory bandwidth:   *)
(* item = copy, up = start, down = start + max(dur, 1), key = copy type.   *)
(*                                                                         *)
(* One action per row of the sorted frame.  Among rows with equal time the *)
(* order is UNSPECIFIED, except that with PlusFirst = TRUE (the code after *)
(* the tie-key fix) every +w row of an instant precedes every -w row.      *)
(* PlusFirst = FALSE with AllowEqual = TRUE is the pinned tree before the  *)
(* fix: TLC then violates NonNeg (MC_Counters_prefix.cfg, documents D5).   *)
(***************************************************************************)
EXTENDS Counters, TLC

CONSTANTS NI, T, Keys, Weights, PlusFirst, AllowEqual

Item == { x \in [key : Keys, up : 0..T, down : 0..T, w : Weights] :
             IF AllowEqual THEN x.up <= x.down ELSE x.up < x.down }
Ord(x) == (((x.up * (T + 1) + x.down) * 8 + x.w) * 64 + x.key)
Inputs == UNION { { s \in [1..n -> Item] : \A j \in 1..(n - 1) : Ord(s[j]) <= Ord(s[j + 1]) } : n \in 1..NI }

VARIABLES items, todo, val, cur, phase
vars == <<items, todo, val, cur, phase>>
ItemSet == { [key |-> items[j].key, up |-> items[j].up, down |-> items[j].down, w |-> items[j].w, i |-> j] : j \in DOMAIN items }
TimeOf(m) == IF m.up THEN items[m.i].up ELSE items[m.i].down

Init == /\ items \in Inputs
        /\ todo = [i : DOMAIN items, up : BOOLEAN]
        /\ val = [k \in Keys |-> 0]
        /\ cur = 0 /\ phase = "sweep"

Row == /\ phase = "sweep" /\ todo # {}
       /\ \E m \in todo :
             /\ \A x \in todo : TimeOf(m) <= TimeOf(x)
             /\ PlusFirst => (m.up \/ \A x \in todo : TimeOf(x) = TimeOf(m) => ~x.up)
             /\ val' = [val EXCEPT ![items[m.i].key] = @ + (IF m.up THEN items[m.i].w ELSE -items[m.i].w)]
             /\ cur' = TimeOf(m)
             /\ todo' = todo \ {m}
       /\ UNCHANGED <<items, phase>>
Finish == /\ phase = "sweep" /\ todo = {} /\ phase' = "done" /\ UNCHANGED <<items, todo, val, cur>>
Next == Row \/ Finish
Spec == Init /\ [][Next]_vars

\* never negative (queue length: when no activity starts before its launch call -- all items have up <= down)
NonNeg == \A k \in Keys : val[k] >= 0
\* after the last row of an instant the counter has its declarative value
AllMarkers == [i : DOMAIN items, up : BOOLEAN]
EndOfInstant == (todo # AllMarkers /\ \A x \in todo : TimeOf(x) # cur) =>
                    \A k \in Keys : val[k] = CounterAt(ItemSet, k, cur)
EndsAtZero == phase = "done" => \A k \in Keys : val[k] = 0
=============================================================================
