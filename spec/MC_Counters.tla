----------------------------- MODULE MC_Counters -----------------------------
(***************************************************************************)
(* C14: a step-function counter built from signed markers (+w when an item *)
(* goes up, -w when it goes down), rows sorted by time, cumulative sum per *)
(* key.  Queue length: item = linked launch/activity pair, up = launch     *)
(* start, down = activity start, key = stream, w = 1.  Memory bandwidth:   *)
(* item = copy, up = start, down = start + max(dur, 1), key = copy type.   *)
(*                                                                         *)
(* One action per row of the sorted frame.  Among rows with equal time the *)
(* order is UNSPECIFIED, except that with PlusFirst = TRUE (the code after *)
(* the tie-key fix) every +w row of an instant precedes every -w row.      *)
(* PlusFirst = FALSE with AllowEqual = TRUE is the pinned tree before the  *)
(* fix: TLC then violates NonNeg (MC_Counters_prefix.cfg, documents D5).   *)
(***************************************************************************)
EXTENDS Counters, TLC

CONSTANTS NI, T, Keys, Weights, PlusFirst, AllowEqual

Item == { x \in [key : Keys, up : 0..T, down : 0..T, w : Weights] :
             IF AllowEqual THEN x.up <= x.down ELSE x.up < x.down }
Ord(x) == (((x.up * (T + 1) + x.down) * 8 + x.w) * 64 + x.key)
Inputs == UNION { { s \in [1..n -> Item] : \A j \in 1..(n - 1) : Ord(s[j]) <= Ord(s[j + 1]) } : n \in 1..NI }

VARIABLES items, todo, val, cur, phase, hi, lo, n
vars == <<items, todo, val, cur, phase, hi, lo, n>>
ItemSet == { [key |-> items[j].key, up |-> items[j].up, down |-> items[j].down, w |-> items[j].w, i |-> j] : j \in DOMAIN items }
TimeOf(m) == IF m.up THEN items[m.i].up ELSE items[m.i].down

Init == /\ items \in Inputs
        /\ todo = [i : DOMAIN items, up : BOOLEAN]
        /\ val = [k \in Keys |-> 0]
        /\ cur = 0 /\ phase = "sweep"
        /\ hi = [k \in Keys |-> 0] /\ lo = [k \in Keys |-> 0] /\ n = [k \in Keys |-> 0]

Row == /\ phase = "sweep" /\ todo # {}
       /\ \E m \in todo :
             /\ \A x \in todo : TimeOf(m) <= TimeOf(x)
             /\ PlusFirst => (m.up \/ \A x \in todo : TimeOf(x) = TimeOf(m) => ~x.up)
             /\ val' = [val EXCEPT ![items[m.i].key] = @ + (IF m.up THEN items[m.i].w ELSE -items[m.i].w)]
             /\ cur' = TimeOf(m)
             /\ todo' = todo \ {m}
             \* running summary of the emitted series (what describe() reports per key: count, max, min)
             /\ LET k == items[m.i].key IN
                  /\ hi' = [hi EXCEPT ![k] = IF n[k] = 0 THEN val'[k] ELSE Max2(@, val'[k])]
                  /\ lo' = [lo EXCEPT ![k] = IF n[k] = 0 THEN val'[k] ELSE Min2(@, val'[k])]
                  /\ n' = [n EXCEPT ![k] = @ + 1]
       /\ UNCHANGED <<items, phase>>
Finish == /\ phase = "sweep" /\ todo = {} /\ phase' = "done" /\ UNCHANGED <<items, todo, val, cur, hi, lo, n>>
Next == Row \/ Finish
Spec == Init /\ [][Next]_vars

\* never negative (queue length: when no activity starts before its launch call -- all items have up <= down)
NonNeg == \A k \in Keys : val[k] >= 0
\* after the last row of an instant the counter has its declarative value
AllMarkers == [i : DOMAIN items, up : BOOLEAN]
EndOfInstant == (todo # AllMarkers /\ \A x \in todo : TimeOf(x) # cur) =>
                    \A k \in Keys : val[k] = CounterAt(ItemSet, k, cur)
EndsAtZero == phase = "done" => \A k \in Keys : val[k] = 0
(***************************************************************************)
(* Summary of the series (beyond C14: get_queue_length_summary /           *)
(* get_memory_bw_summary report count, max, min per key).  With the +w     *)
(* rows of an instant first, the largest point of a key is the declarative *)
(* peak: the counter at the end of some instant plus what goes down at     *)
(* that instant; the smallest point is never below 0 and never above the   *)
(* smallest end-of-instant value; there are two points per item.           *)
(***************************************************************************)
OfKey(k) == { x \in ItemSet : x.key = k }
DownAt(k, t) == SumSet({ x \in OfKey(k) : x.down = t }, [x \in ItemSet |-> x.w])
MarkerTimes(k) == { x.up : x \in OfKey(k) } \cup { x.down : x \in OfKey(k) }
Peak(k) == SetMax({ CounterAt(ItemSet, k, t) + DownAt(k, t) : t \in MarkerTimes(k) })
SummaryMeaning == phase = "done" => \A k \in Keys :
    /\ n[k] = 2 * Cardinality(OfKey(k))
    /\ OfKey(k) # {} =>
         /\ PlusFirst => hi[k] = Peak(k)
         /\ hi[k] <= SumSet(OfKey(k), [x \in ItemSet |-> x.w])
         /\ PlusFirst => lo[k] >= 0
         /\ lo[k] <= SetMin({ CounterAt(ItemSet, k, t) : t \in MarkerTimes(k) })
=============================================================================
