---------------------------- MODULE MC_LongestPath ----------------------------
(***************************************************************************)
(* C09: the longest-path computation on EVERY weighted DAG with N nodes    *)
(* (edges i -> j only for i < j, so node order is a topological order;     *)
(* each possible edge absent or with a weight in Weights).                 *)
(*                                                                         *)
(* NXPath transcribes networkx.dag_longest_path as critical_path() uses    *)
(* it: dist[v] = best (length, predecessor) over incoming edges, (0, v)    *)
(* for sources; the end point is the FIRST node in topological order with  *)
(* the largest length; the path is followed backwards.  With Fallback =    *)
(* TRUE a path of fewer than two nodes (all weights zero) is replaced by   *)
(* the longest chain of edges (the repaired code); with FALSE the pinned   *)
(* tree's assertion 'at least two nodes' fails -- MC_LongestPath_prefix.cfg*)
(* makes TLC exhibit that graph.                                           *)
(*                                                                         *)
(* A token then walks the graph edge by edge (one action per edge): every  *)
(* reachable accumulated weight is at most LongestWeight, the relaxation   *)
(* used by the trace validation, which must also equal the brute-force     *)
(* maximum over all paths and the weight of NXPath.                        *)
(***************************************************************************)
EXTENDS CriticalPath, TLC
CONSTANTS N, Weights, Fallback

Pairs == { p \in (0..(N - 1)) \X (0..(N - 1)) : p[1] < p[2] }
VARIABLES wt,      \* Pairs -> Weights \cup {-1}   (-1 = no edge)
          cur, acc, steps
vars == <<wt, cur, acc, steps>>
E == { [u |-> p[1], v |-> p[2], w |-> wt[p], gw |-> wt[p], type |-> "op"] : p \in { q \in Pairs : wt[q] >= 0 } }
Nodes == [j \in 1..N |-> [idx |-> j - 1, ev |-> j - 1, ts |-> j - 1, start |-> TRUE]]

Init == wt \in [Pairs -> Weights \cup {-1}] /\ cur \in 0..(N - 1) /\ acc = 0 /\ steps = 0
Walk == \E e \in E : e.u = cur /\ cur' = e.v /\ acc' = acc + e.gw /\ steps' = steps + 1 /\ UNCHANGED wt
Next == Walk
Spec == Init /\ [][Next]_vars

\* brute force: all paths from n
RECURSIVE PathsFrom(_)
PathsFrom(n) == { <<n>> } \cup UNION { { <<n>> \o p : p \in PathsFrom(e.v) } : e \in { x \in E : x.u = n } }
AllPaths == UNION { PathsFrom(n) : n \in 0..(N - 1) }
BruteMax == SetMax({ PathWeight(E, p) : p \in AllPaths })

\* networkx.dag_longest_path with weight function W
RECURSIVE Dist(_, _, _)
Dist(v, W(_), d) ==   \* d: function on 0..v-1 to <<len, pred>>
    IF v = N THEN d
    ELSE LET ins == { e \in E : e.v = v }
             best == IF ins = {} THEN <<0, v>>
                     ELSE LET m == SetMax({ d[e.u][1] + W(e) : e \in ins })
                              u == SetMin({ e.u : e \in { x \in ins : d[x.u][1] + W(x) = m } })    \* first maximal predecessor
                          IN IF m >= 0 THEN <<m, u>> ELSE <<0, v>>
         IN Dist(v + 1, W, [x \in 0..v |-> IF x = v THEN best ELSE d[x]])
RECURSIVE Back(_, _)
Back(d, v) == IF d[v][2] = v THEN <<v>> ELSE Append(Back(d, d[v][2]), v)
NX(W(_)) == LET d == Dist(0, W, <<>>)
                m == SetMax({ d[x][1] : x \in 0..(N - 1) })
                v == SetMin({ x \in 0..(N - 1) : d[x][1] = m })
            IN Back(d, v)
ByWeight(e) == e.gw
ByHops(e) == 1
NXPath == LET p == NX(ByWeight) IN IF Len(p) < 2 /\ Fallback THEN NX(ByHops) ELSE p

RelaxIsMax == steps = 0 => LongestWeight(Nodes, E) = BruteMax
WalkBounded == acc <= LongestWeight(Nodes, E)
ReportedIsPath == steps = 0 => (E # {} => (Len(NXPath) >= 2 /\ PathConnected(E, NXPath)))
ReportedIsOptimal == steps = 0 => (E # {} /\ Len(NXPath) >= 2 => PathWeight(E, NXPath) = BruteMax)
=============================================================================
