------------------------------ MODULE Counters ------------------------------
(***************************************************************************)
(* Step-function counters derived from a loaded frame:                     *)
(*   C14  queue length per stream, memory bandwidth per copy type, and the *)
(*        counter events written into the augmented trace file             *)
(*   C15  launch statistics                                                *)
(*   C06  idle-time breakdown (gaps between stream-consecutive kernels)    *)
(* R is the set of rows of one rank:                                       *)
(*   [id, ts, dur, stream, corr, name, cat, link, bw]                      *)
(***************************************************************************)
EXTENDS Breakdown

ById(R, id) == CHOOSE x \in R : x.id = id

(***************************************************************************)
(* Generic signed-marker counter: an item raises the counter of its key by *)
(* w at time up and lowers it at time down.                                *)
(***************************************************************************)
CounterAt(Items, key, t) ==
    SumSet({ x \in Items : x.key = key /\ x.up <= t }, [x \in Items |-> x.w])
  - SumSet({ x \in Items : x.key = key /\ x.down <= t }, [x \in Items |-> x.w])

(***************************************************************************)
(* C14 queue length.  A pair = a launch call (by name) linked to a device  *)
(* activity on a stream.                                                   *)
(***************************************************************************)
QueueLaunches(R) == { h \in R : h.name \in LaunchNames /\ h.link > 0 /\ \E k \in R : k.id = h.link /\ OnStream(k) }
QueueItems(R) == { [key |-> ById(R, h.link).stream, up |-> h.ts, down |-> ById(R, h.link).ts, w |-> 1,
                    hid |-> h.id, kid |-> h.link] : h \in QueueLaunches(R) }
QueueLen(R, s, t) == CounterAt(QueueItems(R), s, t)
QueueCausal(R) == \A x \in QueueItems(R) : x.up <= x.down

(***************************************************************************)
(* C14 memory bandwidth.  Copy type = prefix of the name.                  *)
(***************************************************************************)
MemType(name) == CASE name = "Memcpy HtoD (Pageable -> Device)" -> "Memcpy HtoD"
                   [] name = "Memcpy HtoD (Pinned -> Device)" -> "Memcpy HtoD"
                   [] name = "Memcpy DtoH (Device -> Pageable)" -> "Memcpy DtoH"
                   [] name = "Memcpy DtoD (Device -> Device)" -> "Memcpy DtoD"
                   [] name = "Memset (Device)" -> "Memset"
                   [] OTHER -> "Memcpy Unknown"
Copies(R) == { k \in R : OnStream(k) /\ KClass(k.name) = "MEMORY" }
BwItems(R) == { [key |-> MemType(k.name), up |-> k.ts, down |-> k.ts + (IF k.dur = 0 THEN 1 ELSE k.dur), w |-> k.bw, kid |-> k.id] : k \in Copies(R) }
BwAt(R, type, t) == CounterAt(BwItems(R), type, t)

(***************************************************************************)
(* A time series is a sequence of [ts, key, val] rows (output order).      *)
(* LastOfInstant: row j is the last row of its key with its timestamp.     *)
(***************************************************************************)
LastOfInstant(S, j) == \A m \in DOMAIN S : (m > j /\ S[m].key = S[j].key) => S[m].ts # S[j].ts
SeriesMatches(S, Items) ==
    \A j \in DOMAIN S : LastOfInstant(S, j) => S[j].val = CounterAt(Items, S[j].key, S[j].ts)
SeriesOrdered(S) == \A a, b \in DOMAIN S : (a < b /\ S[a].key = S[b].key) => S[a].ts <= S[b].ts
SeriesEndsAtZero(S) == \A j \in DOMAIN S : (\A m \in DOMAIN S : (m > j) => S[m].key # S[j].key) => S[j].val = 0
\* the series has one row per marker: the multiset of (key, ts) equals ups plus downs
CountRows(S, key, t) == Cardinality({ j \in DOMAIN S : S[j].key = key /\ S[j].ts = t })
SeriesRows(S, Items) ==
    /\ \A j \in DOMAIN S : \E x \in Items : x.key = S[j].key /\ (x.up = S[j].ts \/ x.down = S[j].ts)
    /\ \A x \in Items : \A t \in {x.up, x.down} :
          CountRows(S, x.key, t) = Cardinality({ y \in Items : y.key = x.key /\ y.up = t })
                                 + Cardinality({ y \in Items : y.key = x.key /\ y.down = t })

(***************************************************************************)
(* C15 launch statistics.                                                  *)
(***************************************************************************)
StatsKernelLaunch == {"cudaLaunchKernel", "cudaLaunchKernelExC", "runFunction - job_prep_and_submit_for_execution"}
StatsMemLaunch == {"cudaMemcpyAsync", "cudaMemsetAsync"}
\* launches through the driver / HIP API are kernel launches too; whether the analysis lists them is left open
StatsOptional == LaunchNames \ (StatsKernelLaunch \cup StatsMemLaunch)
PairOf(R, h) == ById(R, h.link)
LinkedLaunch(R, names) == { h \in R : h.stream = -1 /\ h.name \in names /\ h.link > 0 /\ OnStream(PairOf(R, h)) }
StatRow(R, h) == LET k == PairOf(R, h) IN
                 [corr |-> h.corr, cpu |-> h.dur, gpu |-> k.dur, delay |-> Max2(0, k.ts - (h.ts + h.dur))]
RequiredStats(R, mem) == { StatRow(R, h) : h \in LinkedLaunch(R, StatsKernelLaunch \cup (IF mem THEN StatsMemLaunch ELSE {})) }
OptionalStats(R) == { StatRow(R, h) : h \in LinkedLaunch(R, StatsOptional) }

(***************************************************************************)
(* C06 idle-time breakdown.                                                *)
(***************************************************************************)
IdleKernels(R, s) == { k \in R : k.stream = s /\ k.cat \in KernelCats }
\* strict FIFO: no overlap and no two activities of a stream starting at the same instant
StrictSerial(R) == \A a, b \in { k \in R : OnStream(k) /\ k.cat \in KernelCats } :
                      (a # b /\ a.stream = b.stream) => (DisjointSpans(a, b) /\ a.ts # b.ts)
\* order of a stream's activities: by start; a zero-length activity precedes the activity that starts at the instant it occupies
Before(p, k) == p.ts < k.ts \/ (p.ts = k.ts /\ p.dur < k.dur)
\* C06's domain: no overlap; two activities of a stream start at the same instant only if exactly one of them has zero length
SerialWithTies(R) == \A a, b \in { k \in R : OnStream(k) /\ k.cat \in KernelCats } :
                      (a # b /\ a.stream = b.stream) => (DisjointSpans(a, b) /\ (a.ts # b.ts \/ (a.dur = 0) # (b.dur = 0)))
Pred(R, k) == LET before == { p \in IdleKernels(R, k.stream) : Before(p, k) }
              IN IF before = {} THEN {} ELSE { CHOOSE p \in before : \A q \in before : ~Before(p, q) }
GapCat(R, k, p, thr) ==
    IF k.link > 0 /\ ById(R, k.link).ts > End(p) THEN "host_wait"
    ELSE IF k.ts - End(p) < thr THEN "kernel_wait" ELSE "other"
IdleSum(R, s, cat, thr) ==
    LET ks == { k \in IdleKernels(R, s) : Pred(R, k) # {} /\ GapCat(R, k, CHOOSE p \in Pred(R, k) : TRUE, thr) = cat }
    IN SumSet(ks, [k \in ks |-> k.ts - End(CHOOSE p \in Pred(R, k) : TRUE)])
\* beyond the listed property: count / min / max / total of the idle intervals of a stream and category
IdleGapKernels(R, s, cat, thr) == { k \in IdleKernels(R, s) : Pred(R, k) # {} /\ GapCat(R, k, CHOOSE p \in Pred(R, k) : TRUE, thr) = cat }
GapOf(R, k) == k.ts - End(CHOOSE p \in Pred(R, k) : TRUE)
IdleStatRow(R, s, cat, thr) == LET ks == IdleGapKernels(R, s, cat, thr) IN
    [count |-> Cardinality(ks), min |-> SetMin({ GapOf(R, k) : k \in ks }), max |-> SetMax({ GapOf(R, k) : k \in ks }),
     total |-> SumSet(ks, [k \in ks |-> GapOf(R, k)])]
StreamSpanMinusBusy(R, s) == Span(Ivs(IdleKernels(R, s))) - Measure(Ivs(IdleKernels(R, s)))
(***************************************************************************)
(* Beyond the listed properties: time spent at or above a queue length m,  *)
(* per stream, read off the queue-length series S (rows [ts, key, val] in  *)
(* series order): every point but a stream's last holds until the stream's *)
(* next point.                                                             *)
(***************************************************************************)
KeyIdx(S, k) == { j \in DOMAIN S : S[j].key = k }
NextOfKey(S, j) == LET later == { n \in KeyIdx(S, S[j].key) : n > j } IN
                   IF later = {} THEN 0 ELSE CHOOSE n \in later : \A n2 \in later : n <= n2
RECURSIVE SumHeld(_, _, _)
SumHeld(S, J, acc) == IF J = {} THEN acc
                      ELSE LET j == CHOOSE x \in J : TRUE IN
                           SumHeld(S, J \ {j}, acc + (IF NextOfKey(S, j) = 0 THEN 0 ELSE S[NextOfKey(S, j)].ts - S[j].ts))
BlockedDur(S, k, m) == SumHeld(S, { j \in KeyIdx(S, k) : S[j].val >= m }, 0)
BlockedKeys(S, m) == { S[j].key : j \in { n \in DOMAIN S : S[n].val >= m } }
BlockedRows(S, m) == { [m |-> m, stream |-> k, dur |-> BlockedDur(S, k, m)] : k \in BlockedKeys(S, m) }
(***************************************************************************)
(* Beyond the listed properties: summary statistics of a series per key    *)
(* (get_queue_length_summary, get_memory_bw_summary): number of points,    *)
(* smallest, largest and total value over the points J of the series (all  *)
(* points for the queue length, the points with a positive value for the   *)
(* bandwidth).  The mean is total / count, stated without division.        *)
(***************************************************************************)
PointsOfKey(S, J, k) == { j \in J : S[j].key = k }
SummaryRow(S, J, k) == LET P == PointsOfKey(S, J, k) IN
    [key |-> k, count |-> Cardinality(P), min |-> SetMin({ S[j].val : j \in P }), max |-> SetMax({ S[j].val : j \in P }),
     total |-> SumSet(P, [j \in P |-> S[j].val])]
SummaryRows(S, J) == { SummaryRow(S, J, k) : k \in { S[j].key : j \in J } }
PositivePoints(S) == { j \in DOMAIN S : S[j].val > 0 }
\* a reported row: count, min, max exact; mean * count within half a unit per point of the total (means are floats)
SummaryRowOK(x, y) == /\ x.key = y.key /\ x.count = y.count /\ x.min = y.min /\ x.max = y.max
                      /\ 2 * Abs(x.total - y.total) <= y.count
SummaryOK(Reported, S, J) == /\ Cardinality(Reported) = Cardinality(SummaryRows(S, J))
                             /\ \A y \in SummaryRows(S, J) : \E x \in Reported : SummaryRowOK(x, y)
=============================================================================
