SPECIFICATION Spec
CONSTANTS
  N = 4
  Corrs = {0, 1, 2}
  WF = TRUE
INVARIANT LinkMeaning
INVARIANT Mutual
INVARIANT Monotone
CHECK_DEADLOCK FALSE
