----------------------------- MODULE Intervals -----------------------------
(***************************************************************************)
(* Time intervals on the integer grid and the interval-merging mechanism   *)
(* that the temporal breakdown, the kernel-type breakdown and the          *)
(* communication/computation overlap all rest on.                          *)
(*                                                                         *)
(* Declarative side: an interval [ts, ts+dur) covers the unit cells        *)
(* ts .. ts+dur-1; the measure of a set of intervals is the number of      *)
(* cells covered by at least one of them.                                  *)
(*                                                                         *)
(* Algorithmic side (merge_kernel_intervals): rows sorted by start with an *)
(* UNSPECIFIED order among equal starts, a running maximum of the ends     *)
(* seen so far, a new group whenever a start is strictly greater than that *)
(* maximum.  MergeStep is one loop iteration; MergeInv is its loop         *)
(* invariant.                                                              *)
(***************************************************************************)
EXTENDS TraceModel

Cells(iv) == iv.ts .. (iv.ts + iv.dur - 1)
CellsOf(S) == UNION { Cells(iv) : iv \in S }
Measure(S) == Cardinality(CellsOf(S))
SpanStart(S) == SetMin({ iv.ts : iv \in S })
SpanEnd(S)   == SetMax({ iv.ts + iv.dur : iv \in S })
Span(S) == IF S = {} THEN 0 ELSE SpanEnd(S) - SpanStart(S)

\* cells covered by at least one interval of A and at least one of B
Both(A, B) == Cardinality(CellsOf(A) \cap CellsOf(B))

(***************************************************************************)
(* All orders a sort by `ts` may produce: permutations of the index set    *)
(* that are non-decreasing in ts.  rows is a sequence of intervals.        *)
(***************************************************************************)
IsPermOf(p, n) == /\ DOMAIN p = 1..n
                  /\ \A i \in 1..n : \E j \in 1..n : p[j] = i
SortedByTs(rows, p) == \A i \in 1..(Len(p) - 1) : rows[p[i]].ts <= rows[p[i + 1]].ts
SortOrders(rows) == { p \in [1..Len(rows) -> 1..Len(rows)] :
                        IsPermOf(p, Len(rows)) /\ SortedByTs(rows, p) }

(***************************************************************************)
(* One iteration of the merge loop.  st = [groups, cummax] where groups is *)
(* a sequence of [ts, end] records; row is the next row in sorted order.   *)
(***************************************************************************)
MergeInit == [groups |-> <<>>, cummax |-> 0]

MergeStep(st, row) ==
    LET e == row.ts + row.dur
        n == Len(st.groups)
    IN IF n = 0
       THEN [groups |-> << [ts |-> row.ts, end |-> e] >>, cummax |-> e]
       ELSE IF row.ts > st.cummax
            THEN [groups |-> Append(st.groups, [ts |-> row.ts, end |-> e]),
                  cummax |-> Max2(st.cummax, e)]
            ELSE [groups |-> [st.groups EXCEPT ![n].end = Max2(@, e),
                                               ![n].ts  = Min2(@, row.ts)],
                  cummax |-> Max2(st.cummax, e)]

RECURSIVE MergeFrom(_, _, _, _)
MergeFrom(st, rows, p, i) == IF i > Len(p) THEN st
                             ELSE MergeFrom(MergeStep(st, rows[p[i]]), rows, p, i + 1)
\* the merged groups for one particular sort order p
Merged(rows, p) == MergeFrom(MergeInit, rows, p, 1).groups

GroupCells(g) == g.ts .. (g.end - 1)
GroupsCells(gs) == UNION { GroupCells(gs[i]) : i \in DOMAIN gs }
GroupsTime(gs) == SumSeq([i \in DOMAIN gs |-> gs[i].end - gs[i].ts])

\* loop invariant after the first k rows (in order p) have been consumed
MergeInv(st, rows, p, k) ==
    LET seen == { rows[p[i]] : i \in 1..k }
        gs == st.groups
    IN /\ GroupsCells(gs) = CellsOf(seen)                       \* exact cover
       /\ \A i \in 1..(Len(gs) - 1) : gs[i].end < gs[i + 1].ts  \* separated by a positive gap
       /\ \A i \in DOMAIN gs : gs[i].ts <= gs[i].end
       /\ k > 0 => /\ st.cummax = SetMax({ r.ts + r.dur : r \in seen })
                   /\ gs[1].ts = SetMin({ r.ts : r \in seen })
                   /\ gs[Len(gs)].end = st.cummax
       /\ GroupsTime(gs) = Measure(seen)
=============================================================================
