----------------------------- MODULE Breakdown -----------------------------
(***************************************************************************)
(* Time-breakdown analyses over the device activities of one rank:         *)
(*   C04 temporal breakdown, C05 kernel-type table, C07 communication/     *)
(*   computation overlap, C06 idle-time breakdown (operators IdleGaps..).  *)
(*                                                                         *)
(* An activity is a record with at least ts, dur and either a `cls` field  *)
(* (model checking) or a `name` whose class is looked up in the vocabulary *)
(* table (trace validation).                                               *)
(***************************************************************************)
EXTENDS Intervals

ClassOf(e) == IF "cls" \in DOMAIN e THEN e.cls ELSE KClass(e.name)
Iv(e) == [ts |-> e.ts, dur |-> e.dur]
Ivs(S) == { Iv(e) : e \in S }
OfClass(S, c) == { e \in S : ClassOf(e) = c }

(***************************************************************************)
(* C04, declarative.  S = the device activities (rows on a stream).        *)
(***************************************************************************)
KernelTime(S)  == Span(Ivs(S))
BusyTime(S)    == Measure(Ivs(S))
IdleTime(S)    == KernelTime(S) - BusyTime(S)
ComputeTime(S) == Measure(Ivs(OfClass(S, "COMPUTATION")))
NonComputeTime(S) == BusyTime(S) - ComputeTime(S)

\* P = reported percentage * 100 (an integer because two decimals are reported)
Abs(x) == IF x < 0 THEN -x ELSE x
PctOK(P, part, whole) == 2 * Abs(P * whole - 10000 * part) <= whole + 2

(***************************************************************************)
(* C05 type table, declarative.  Types analysed, in the order that fixes   *)
(* the bit of each type and the wording of combined rows.                  *)
(***************************************************************************)
TypeOrder(includeMem) == IF includeMem THEN <<"COMPUTATION", "COMMUNICATION", "MEMORY">>
                         ELSE <<"COMPUTATION", "COMMUNICATION">>
Bit(i) == IF i = 1 THEN 1 ELSE IF i = 2 THEN 2 ELSE 4
\* set of type indices encoded by a positive mask < 8
MaskSet(m) == { i \in 1..3 : (m \div Bit(i)) % 2 = 1 }
MaskOf(I) == SumSet(I, [i \in 1..3 |-> Bit(i)])

\* classes (as indices of TypeOrder) active in cell t
ActiveAt(S, types, t) == { i \in DOMAIN types : \E e \in OfClass(S, types[i]) : t \in Cells(Iv(e)) }
AnalysedCells(S, types) == CellsOf(Ivs({ e \in S : \E i \in DOMAIN types : ClassOf(e) = types[i] }))
\* time during which exactly the combination `mask` is running
Exactly(S, types, mask) ==
    Cardinality({ t \in AnalysedCells(S, types) : MaskOf(ActiveAt(S, types, t)) = mask })

RECURSIVE JoinNames(_, _, _)
JoinNames(types, I, i) ==
    IF i > Len(types) THEN ""
    ELSE IF i \in I
         THEN LET rest == JoinNames(types, I, i + 1)
              IN IF rest = "" THEN types[i] ELSE types[i] \o " overlapping " \o rest
         ELSE JoinNames(types, I, i + 1)
RowName(types, mask) == JoinNames(types, MaskSet(mask), 1)

(***************************************************************************)
(* C07, declarative.                                                       *)
(***************************************************************************)
CommTime(S) == Measure(Ivs(OfClass(S, "COMMUNICATION")))
OverlapTime(S) == Both(Ivs(OfClass(S, "COMMUNICATION")), Ivs(OfClass(S, "COMPUTATION")))

(***************************************************************************)
(* Algorithmic side: the marker sweep.  A marker is [time, delta]; the     *)
(* sweep consumes markers in non-decreasing time with an UNSPECIFIED order *)
(* among equal times.  sw = [running, prev, started, acc] where acc maps a *)
(* positive running value to accumulated time.  The code computes, for the *)
(* i-th row, dur = time(i+1) - time(i) and keeps rows whose running value  *)
(* is positive; stepping marker i+1 therefore credits the previous row.    *)
(***************************************************************************)
SweepInit == [running |-> 0, prev |-> 0, started |-> FALSE, acc |-> [m \in {} |-> 0]]

AddTo(acc, m, d) == IF m \in DOMAIN acc THEN [acc EXCEPT ![m] = @ + d]
                    ELSE [x \in DOMAIN acc \cup {m} |-> IF x = m THEN d ELSE acc[x]]

SweepStep(sw, mk) ==
    LET acc1 == IF sw.started /\ sw.running > 0
                THEN AddTo(sw.acc, sw.running, mk.time - sw.prev) ELSE sw.acc
    IN [running |-> sw.running + mk.delta, prev |-> mk.time, started |-> TRUE, acc |-> acc1]

AccOf(sw, m) == IF m \in DOMAIN sw.acc THEN sw.acc[m] ELSE 0

\* markers of a sequence of merged groups for type bit v
Markers(gs, v) == { [time |-> gs[i].ts,  delta |-> v,  g |-> i, v |-> v] : i \in DOMAIN gs } \cup
                  { [time |-> gs[i].end, delta |-> -v, g |-> i, v |-> v] : i \in DOMAIN gs }
(***************************************************************************)
(* Beyond the listed properties: a GPU kernel is attributed to the         *)
(* innermost GPU user annotation of its (pid, tid) row that it overlaps    *)
(* (half-open spans), "" when there is none.  Kernels or annotations of    *)
(* zero length are left out: what an empty interval overlaps is not        *)
(* defined by the documentation.                                           *)
(***************************************************************************)
SpanOverlap(a, k) == a.ts < k.ts + k.dur /\ k.ts < a.ts + a.dur
AnnoOver(A, k) == { a \in A : a.pid = k.pid /\ a.tid = k.tid /\ a.dur > 0 /\ SpanOverlap(a, k) }
LeafAnnoNames(A, k) == LET O == AnnoOver(A, k) IN
                       IF O = {} THEN {""} ELSE { a.name : a \in { x \in O : \A y \in O : x.dur <= y.dur } }
ZeroAnnoNear(A, k) == \E a \in A : a.pid = k.pid /\ a.tid = k.tid /\ a.dur = 0 /\ k.ts <= a.ts /\ a.ts <= k.ts + k.dur
KernelAnnoOK(A, K) == \A k \in K : (k.dur > 0 /\ ~ZeroAnnoNear(A, k)) => k.anno \in LeafAnnoNames(A, k)
=============================================================================
