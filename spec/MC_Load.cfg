SPECIFICATION Spec
CONSTANTS
  TS = 5
  DS = 3
  Skews = {99, 0, 1, 3}
  ShiftEnd = TRUE
INVARIANT Faithful
INVARIANT MinTsMeaning
INVARIANT EndIsTsPlusDur
INVARIANT NoTrimNoLoss
INVARIANT Rounding
INVARIANT TrimMeaning
INVARIANT IterMeaning
CHECK_DEADLOCK FALSE
