------------------------------ MODULE CallStack ------------------------------
(***************************************************************************)
(* C03: the call stack of one host thread.                                 *)
(*                                                                         *)
(* Declarative side: the tree the statement describes, for a set S of      *)
(* events [id, ts, dur] whose spans are properly nested.                   *)
(* Algorithmic side: both endpoint comparators transcribed branch for      *)
(* branch, the set of orders a comparison sort may return, and the stack   *)
(* machine (push on open, BLIND pop on close, as in the code).             *)
(***************************************************************************)
EXTENDS TraceModel

Root == -1
SameSpan(a, b) == a.ts = b.ts /\ a.dur = b.dur

(***************************************************************************)
(* Positive-duration events: parent = innermost enclosing positive event;  *)
(* identical spans nest in file order (smaller id outside); spans that     *)
(* merely touch are siblings (touching spans do not enclose each other).   *)
(***************************************************************************)
Above(p, e) == /\ p # e /\ p.dur > 0
               /\ \/ (Encloses(p, e) /\ ~SameSpan(p, e))
                  \/ (SameSpan(p, e) /\ p.id < e.id)
Ancestors(S, e) == { p \in S : Above(p, e) }
ParentPos(S, e) == LET A == Ancestors(S, e) IN
                   IF A = {} THEN Root
                   ELSE LET C == { p \in A : \A q \in A : q = p \/ Above(q, p) }
                        IN IF C = {} THEN -2 ELSE (CHOOSE p \in C : TRUE).id     \* -2: not properly nested

(***************************************************************************)
(* Zero-duration events: beneath an event whose CLOSED span contains the   *)
(* instant; the root only when no positive-duration event does.            *)
(***************************************************************************)
ClosedContains(p, t) == p.ts <= t /\ t <= End(p)
ZeroParentOK(S, z, pid) ==
    IF pid = Root THEN ~\E p \in S : p.dur > 0 /\ ClosedContains(p, z.ts)
    ELSE \E p \in S : p.id = pid /\ p # z /\ ClosedContains(p, z.ts)

\* par, dep: functions from ids to parent id / depth, as a builder returned them
RECURSIVE ChainLen(_, _, _)
ChainLen(par, id, fuel) == IF id = Root THEN 0
                           ELSE IF fuel = 0 \/ id \notin DOMAIN par THEN -1000
                           ELSE 1 + ChainLen(par, par[id], fuel - 1)
NumAncestors(par, id) == ChainLen(par, id, Cardinality(DOMAIN par) + 1) - 1

EveryEventOnce(S, par) == DOMAIN par = { e.id : e \in S }
PositiveParents(S, par) == \A e \in S : e.dur > 0 => par[e.id] = ParentPos(S, e)
ZeroParents(S, par) == \A z \in S : z.dur = 0 => ZeroParentOK(S, z, par[z.id])
DepthOK(S, par, dep) == \A e \in S : dep[e.id] = NumAncestors(par, e.id)

\* the shape behind the known finding: a zero-duration event at an instant where one positive span ends
\* and another begins
ZeroAtTouch(S) == \E z, a, b \in S : z.dur = 0 /\ a.dur > 0 /\ b.dur > 0 /\ End(a) = z.ts /\ b.ts = z.ts

\* two zero-duration events at the same instant (the old comparator's rules for them contradict each other)
ZeroPair(S) == \E a, b \in S : a # b /\ a.dur = 0 /\ b.dur = 0 /\ a.ts = b.ts

(***************************************************************************)
(* Endpoints and the two comparators.                                      *)
(***************************************************************************)
Endpoints(S) == { [id |-> e.id, dur |-> e.dur, kind |-> "open",  time |-> e.ts]  : e \in S } \cup
                { [id |-> e.id, dur |-> e.dur, kind |-> "close", time |-> End(e)] : e \in S }

\* trace_call_stack._cmp_events_with_zero_duration
ZeroCmp(x, y) ==
    IF x.dur = 0 /\ y.dur > 0 THEN y.kind = "close"
    ELSE IF x.dur > 0 /\ y.dur = 0 THEN x.kind = "open"
    ELSE IF x.kind = "open" /\ y.kind = "open" THEN x.id < y.id
    ELSE IF x.kind = "close" /\ y.kind = "close" THEN x.id > y.id
    ELSE x.kind = "open"

\* trace_call_stack._less_than
LessNew(x, y) ==
    IF x.time # y.time THEN x.time < y.time
    ELSE IF x.id = y.id THEN x.kind = "open"
    ELSE IF x.dur = 0 \/ y.dur = 0 THEN ZeroCmp(x, y)
    ELSE IF x.kind = "close" /\ y.kind = "open" THEN TRUE
    ELSE IF x.kind = "open" /\ y.kind = "close" THEN FALSE
    ELSE IF x.kind = "open" /\ y.kind = "open" /\ x.dur # y.dur THEN x.dur > y.dur
    ELSE IF x.kind = "close" /\ y.kind = "close" /\ x.dur # y.dur THEN x.dur < y.dur
    ELSE IF x.kind = "open" THEN x.id < y.id
    ELSE x.id > y.id

\* call_stack.compare_events (returns an integer; < 0: x first)
CmpOld(x, y) ==
    IF x.id = y.id THEN (IF x.kind = "open" THEN -1 ELSE 1)
    ELSE IF x.time # y.time THEN x.time - y.time
    ELSE IF x.kind = y.kind
         THEN IF x.kind = "open"
              THEN IF x.dur = y.dur THEN (IF x.id < y.id THEN -1 ELSE IF x.id > y.id THEN 1 ELSE 0)
                   ELSE IF x.dur < y.dur THEN 1 ELSE -1
              ELSE IF x.dur = y.dur THEN (IF x.id < y.id THEN 1 ELSE 0)      \* sic: 0 when x.id > y.id
                   ELSE IF x.dur < y.dur THEN -1 ELSE 1
         ELSE IF x.dur > 0 /\ y.dur > 0 THEN (IF x.kind = "open" THEN 1 ELSE -1)
              ELSE IF x.dur = 0 /\ y.dur = 0 THEN x.id - y.id
              ELSE IF x.kind = "open" THEN -1 ELSE 1
LessOld(x, y) == CmpOld(x, y) < 0

(***************************************************************************)
(* The order both builders use since the repair of D6: a sort KEY instead  *)
(* of a pairwise comparator.  At one instant: zero-duration events first   *)
(* when some positive span closes there (they lie inside it), then the     *)
(* closes (inner first), then the opens (outer first), then zero-duration  *)
(* events when nothing closes there (they lie inside what just opened).    *)
(***************************************************************************)
CloseTimes(S) == { End(e) : e \in { x \in S : x.dur > 0 } }
Group(S, x) == IF x.dur = 0 THEN (IF x.time \in CloseTimes(S) THEN 0 ELSE 3)
               ELSE IF x.kind = "close" THEN 1 ELSE 2
LessKey(S, x, y) ==
    IF x.time # y.time THEN x.time < y.time
    ELSE IF Group(S, x) # Group(S, y) THEN Group(S, x) < Group(S, y)
    ELSE IF x.dur = 0 THEN (IF x.kind # y.kind THEN x.kind = "open"
                            ELSE IF x.kind = "open" THEN x.id < y.id ELSE x.id > y.id)
    ELSE IF x.kind = "close" THEN (IF x.dur # y.dur THEN x.dur < y.dur ELSE x.id > y.id)
    ELSE (IF x.dur # y.dur THEN x.dur > y.dur ELSE x.id < y.id)

(***************************************************************************)
(* What a comparison sort may return: any arrangement without inversion    *)
(* (no later element strictly smaller than an earlier one).  For a strict  *)
(* total order that is the unique sorted sequence.                         *)
(***************************************************************************)
IsStrictTotal(Less(_, _), E) ==
    /\ \A x, y \in E : x # y => (Less(x, y) <=> ~Less(y, x))
    /\ \A x, y, z \in E : (x # y /\ y # z /\ x # z /\ Less(x, y) /\ Less(y, z)) => Less(x, z)
NoInversion(Less(_, _), seq) == \A a, b \in DOMAIN seq : a < b => ~Less(seq[b], seq[a])

(***************************************************************************)
(* The stack machine.  st = [stack, par, dep]                              *)
(***************************************************************************)
MachInit == [stack |-> <<>>, par |-> [x \in {} |-> 0], dep |-> [x \in {} |-> 0]]
Ext(f, k, v) == [x \in DOMAIN f \cup {k} |-> IF x = k THEN v ELSE f[x]]
MachStep(st, ep) ==
    IF ep.kind = "open"
    THEN LET n == Len(st.stack)
             p == IF n = 0 THEN Root ELSE st.stack[n]
         IN IF ep.id \in DOMAIN st.par THEN st      \* "node exists": the edge is refused
            ELSE [stack |-> Append(st.stack, ep.id), par |-> Ext(st.par, ep.id, p),
                  dep |-> Ext(st.dep, ep.id, IF p = Root THEN 0 ELSE st.dep[p] + 1)]
    ELSE IF Len(st.stack) = 0 THEN st
         ELSE [st EXCEPT !.stack = SubSeq(st.stack, 1, Len(st.stack) - 1)]
=============================================================================
