------------------------------- MODULE MC_Diff -------------------------------
(***************************************************************************)
(* C17: the partition law.  The five predicates ops_diff applies to the    *)
(* (control_counts, test_counts, diff_counts) columns are transcribed as   *)
(* the code writes them; for every pair of counts in 0..M (not both 0)     *)
(* exactly one of them holds, and it is the declarative class.  The state  *)
(* machine walks a table of N names row by row and files each name.        *)
(***************************************************************************)
EXTENDS Diff, TLC
CONSTANTS N, M

VARIABLES table, pos, filed
vars == <<table, pos, filed>>
\* predicates exactly as in TraceDiff.ops_diff (c = control count, t = test count, d = t - c)
Added(c, t, d) == c = 0 /\ t > 0
Deleted(c, t, d) == c > 0 /\ t = 0
Increased(c, t, d) == c > 0 /\ d > 0
Decreased(c, t, d) == t > 0 /\ d < 0
Unchanged(c, t, d) == t > 0 /\ d = 0
Hits(c, t) == LET d == t - c IN
              (IF Added(c, t, d) THEN {"added"} ELSE {}) \cup (IF Deleted(c, t, d) THEN {"deleted"} ELSE {}) \cup
              (IF Increased(c, t, d) THEN {"increased"} ELSE {}) \cup (IF Decreased(c, t, d) THEN {"decreased"} ELSE {}) \cup
              (IF Unchanged(c, t, d) THEN {"unchanged"} ELSE {})

Init == /\ table \in [1..N -> { p \in (0..M) \X (0..M) : p[1] + p[2] > 0 }]
        /\ pos = 1 /\ filed = [k \in Classes |-> {}]
FileRow == /\ pos <= N
           /\ filed' = [k \in Classes |-> IF k \in Hits(table[pos][1], table[pos][2]) THEN filed[k] \cup {pos} ELSE filed[k]]
           /\ pos' = pos + 1 /\ UNCHANGED table
Next == FileRow
Spec == Init /\ [][Next]_vars

Disjoint == \A a, b \in Classes : a # b => filed[a] \cap filed[b] = {}
Covering == pos = N + 1 => UNION { filed[k] : k \in Classes } = 1..N
Meaning == \A k \in Classes : \A n \in filed[k] : ClassOfCounts(table[n][1], table[n][2]) = k
SelfCompare == (pos = N + 1 /\ \A n \in 1..N : table[n][1] = table[n][2]) => filed["unchanged"] = 1..N
=============================================================================
