------------------------------ MODULE Sessions ------------------------------
(***************************************************************************)
(* Several TraceAnalysis objects alive in one process (Session.tla is one   *)
(* object).  Each object owns its trace; a public call on one object reads *)
(* and changes only that object.  What a call returns is a function of the *)
(* object's trace and of the calls made ON THAT OBJECT so far -- never of   *)
(* calls made on another object, of the folder the files share, or of the  *)
(* order in which the objects were used (isolation).                       *)
(*                                                                         *)
(* A history is a sequence of [obj, op].  Sub(h, o) is the object's own    *)
(* history.  View(h, k) is everything the k-th call may depend on.         *)
(***************************************************************************)
EXTENDS Session

Objs == {"A", "B"}
RECURSIVE SubOps(_, _, _)
SubOps(h, o, k) == IF k = 0 THEN <<>>
                   ELSE IF h[k].obj = o THEN Append(SubOps(h, o, k - 1), h[k].op) ELSE SubOps(h, o, k - 1)
Sub(h, o) == SubOps(h, o, Len(h))
\* position of the k-th call of h within its object's own history
PosIn(h, k) == Len(SubOps(h, h[k].obj, k))
\* what the k-th call may depend on: whose trace, and that object's own calls up to and including this one
View(h, k) == <<h[k].obj, SubOps(h, h[k].obj, k)>>
\* the object's frame state after the history
ObjState(h, o) == After(Start, Sub(h, o), 1)
=============================================================================
