--------------------------- MODULE MC_CriticalPath ---------------------------
(***************************************************************************)
(* C08 model checking: the critical-path graph builder on EVERY small      *)
(* causally consistent single-thread program of NC top-level runtime calls *)
(* (kernel launches onto streams 7 / 9, cudaStreamSynchronize,             *)
(* cudaDeviceSynchronize), with every placement of the kernels (start no   *)
(* earlier than the launch, strict FIFO per stream, grid 0..T) and of the  *)
(* synchronisation records.                                                *)
(*                                                                         *)
(* Transcribed, one action per row of the kernel loop                      *)
(* (_construct_graph_from_kernels): rows ordered by kernel START but sync  *)
(* records by their END, equal keys in ANY order; span edge; launch-delay  *)
(* edge iff the queue length is 1 at the launch row and 0 at the kernel    *)
(* row and the previous kernel of the stream ended strictly before the     *)
(* launch started; otherwise a kernel-kernel edge from the previous kernel *)
(* of the stream; optional zero-weight launch edge; Stream Sync -> edge    *)
(* from the last processed kernel of that stream, Context Sync -> from the *)
(* last kernel of every stream, to the END of the synchronising call       *)
(* (Guard = TRUE: only if that kernel has ended by then and was launched  *)
(* before the call returned -- the repaired code).  The host side contributes span edges (zero weight for blocking  *)
(* calls) and dependency edges between consecutive top-level calls.        *)
(* Invariants = the clauses of C08, evaluated with the operators the trace *)
(* validation uses.                                                        *)
(***************************************************************************)
EXTENDS CriticalPath, TLC, Json
CONSTANTS NC, T, ZeroLaunch, Guard, EmitOn

Streams == {7, 9}
CallSpec == [kind : {"launch", "ssync", "dsync"}, ts : 0..T, dur : 1..2,    \* zero-duration host events are removed before the graph is built
             stream : Streams, kts : 0..T, kdur : 0..2, send : 0..T]
\* admissible next call after the calls of p (sequential top-level calls with strictly increasing starts)
OKCall(p, c) ==
    /\ (Len(p) > 0 => (p[Len(p)].ts + p[Len(p)].dur <= c.ts /\ p[Len(p)].ts < c.ts))
    /\ (c.kind = "launch" => (c.kts >= c.ts /\ c.send = 0))
    /\ (c.kind # "launch" => (c.kts = 0 /\ c.kdur = 0 /\ c.send >= c.ts /\ c.send <= c.ts + c.dur /\ (c.kind = "dsync" => c.stream = 7)))

VARIABLES prog, todo, last, edges, phase
vars == <<prog, todo, last, edges, phase>>

Launches == { i \in 1..NC : prog[i].kind = "launch" }
Syncs == { i \in 1..NC : prog[i].kind # "launch" }
\* event ids: call i -> i, kernel of launch i -> NC + i, sync record of call i -> 2 NC + i
CallRow(i) == [id |-> i, ts |-> prog[i].ts, dur |-> prog[i].dur, pid |-> 5, tid |-> 5, stream |-> -1, corr |-> i,
               link |-> IF prog[i].kind = "launch" THEN NC + i ELSE 2 * NC + i,
               name |-> CASE prog[i].kind = "launch" -> "cudaLaunchKernel" [] prog[i].kind = "ssync" -> "cudaStreamSynchronize" [] OTHER -> "cudaDeviceSynchronize",
               cat |-> "cuda_runtime"]
KernRow(i) == [id |-> NC + i, ts |-> prog[i].kts, dur |-> prog[i].kdur, pid |-> 0, tid |-> prog[i].stream, stream |-> prog[i].stream, corr |-> i,
               link |-> i, name |-> "ampere_sgemm_128x64_nn", cat |-> "kernel"]
SyncRow(i) == [id |-> 2 * NC + i, ts |-> prog[i].ts, dur |-> prog[i].send - prog[i].ts, pid |-> 0,
               tid |-> IF prog[i].kind = "ssync" THEN prog[i].stream ELSE -1,
               stream |-> IF prog[i].kind = "ssync" THEN prog[i].stream ELSE -1, corr |-> i, link |-> i,
               name |-> IF prog[i].kind = "ssync" THEN "Stream Sync" ELSE "Context Sync", cat |-> "cuda_sync"]
R == { CallRow(i) : i \in 1..NC } \cup { KernRow(i) : i \in Launches } \cup { SyncRow(i) : i \in Syncs }
\* two nodes per analysed event: start = 2 (id - 1), end = 2 (id - 1) + 1
NodeEvents == { e.id : e \in Analysed(R) }
MaxId == 3 * NC
Nodes == [j \in 1..(2 * MaxId) |-> LET id == ((j - 1) \div 2) + 1  st == ((j - 1) % 2 = 0)
                                   IN IF id \in NodeEvents
                                      THEN [idx |-> j - 1, ev |-> id, ts |-> IF st THEN EvOf(R, id).ts ELSE End(EvOf(R, id)), start |-> st]
                                      ELSE [idx |-> j - 1, ev |-> -1, ts |-> 0, start |-> st]]
SN(id) == 2 * (id - 1)
EN(id) == 2 * (id - 1) + 1
Edge(u, v, ty, zero) == LET d == Node(Nodes, v).ts - Node(Nodes, u).ts
                            w == IF ty \in {"dep", "sync"} \/ zero THEN 0 ELSE d
                        IN [u |-> u, v |-> v, w |-> w, gw |-> IF w <= -1 THEN 0 ELSE w, type |-> ty]

\* host side: every call is a top-level operator of the thread
HostEdges == { Edge(SN(i), EN(i), "op", prog[i].kind # "launch") : i \in 1..NC } \cup
             { Edge(EN(i), SN(i + 1), "dep", FALSE) : i \in 1..(NC - 1) }

\* queue length of the stream at the launch row / at the kernel row of launch i (launch rows first at equal times)
QAtLaunch(i) == Cardinality({ j \in Launches : prog[j].stream = prog[i].stream /\ prog[j].ts <= prog[i].ts })
              - Cardinality({ j \in Launches : prog[j].stream = prog[i].stream /\ prog[j].kts < prog[i].ts })
QAtKernel(i) == Cardinality({ j \in Launches : prog[j].stream = prog[i].stream /\ prog[j].ts <= prog[i].kts })
              - Cardinality({ j \in Launches : prog[j].stream = prog[i].stream /\ prog[j].kts <= prog[i].kts })

SortKey(i) == IF prog[i].kind = "launch" THEN prog[i].kts ELSE prog[i].send

Init == prog = <<>> /\ todo = {} /\ last = [s \in Streams |-> 0] /\ edges = {} /\ phase = "build"

\* build phase: the program grows call by call; only causally consistent, strictly serial programs continue
AddCall == /\ phase = "build" /\ Len(prog) < NC
           /\ \E c \in CallSpec : OKCall(prog, c) /\ prog' = Append(prog, c)
           /\ UNCHANGED <<todo, last, edges, phase>>
Start == /\ phase = "build" /\ Len(prog) = NC /\ Launches # {}
         /\ StrictSerial(R) = TRUE /\ SyncCausal(R) = TRUE      \* values, so that TLC does not split the action on their disjunctions
         /\ phase' = "kernels" /\ todo' = 1..NC /\ UNCHANGED <<prog, last, edges>>

KernelRow(i) ==
    LET s == prog[i].stream
        prev == last[s]
        span == Edge(SN(NC + i), EN(NC + i), "op", FALSE)
        launchDelay == QAtLaunch(i) = 1 /\ QAtKernel(i) = 0 /\ (prev = 0 \/ End(KernRow(prev)) < prog[i].ts)
        main == IF launchDelay THEN { Edge(SN(i), SN(NC + i), "launch", FALSE) }
                ELSE IF prev # 0 THEN { Edge(EN(NC + prev), SN(NC + i), "k2k", FALSE) } ELSE {}
        zl == IF ZeroLaunch /\ ~launchDelay THEN { Edge(SN(i), SN(NC + i), "launch", TRUE) } ELSE {}
    IN /\ edges' = edges \cup {span} \cup main \cup zl
       /\ last' = [last EXCEPT ![s] = i]
SyncRecRow(i) ==
    \* a Context Sync record sits on stream -1, i.e. among the host rows, and the window keeps host rows of positive duration only:
    \* a zero-duration Context Sync record never reaches the loop (deviation of the code, modelled as it is)
    LET srcs == IF prog[i].kind = "dsync" THEN (IF prog[i].send > prog[i].ts THEN { last[s] : s \in Streams } \ {0} ELSE {})
                ELSE { last[prog[i].stream] } \ {0}
        ok == { k \in srcs : ~Guard \/ (End(KernRow(k)) <= prog[i].ts + prog[i].dur /\ prog[k].ts < prog[i].ts + prog[i].dur) }
    IN /\ edges' = edges \cup { Edge(EN(NC + k), EN(i), "sync", FALSE) : k \in ok }
       /\ UNCHANGED last
Row == /\ phase = "kernels" /\ todo # {}
       /\ \E i \in todo : /\ \A j \in todo : SortKey(i) <= SortKey(j)
                          /\ IF prog[i].kind = "launch" THEN KernelRow(i) ELSE SyncRecRow(i)
                          /\ todo' = todo \ {i}
       /\ UNCHANGED <<prog, phase>>
Finish == /\ phase = "kernels" /\ todo = {} /\ phase' = "done" /\ edges' = edges \cup HostEdges /\ UNCHANGED <<prog, todo, last>>
Next == AddCall \/ Start \/ Row \/ Finish
Spec == Init /\ [][Next]_vars

Done == phase = "done"
GraphAcyclic == Done => Acyclic(Nodes, edges)
GraphForward == phase # "build" => Forward(Nodes, edges)
GraphWeights == phase # "build" => (WeightRule(R, Nodes, edges, ZeroLaunch) /\ \A e \in edges : e.w >= 0)
LaunchShape == phase # "build" => EdgeShapes(R, Nodes, edges, "launch", LaunchEdgeOK)
K2KShape == phase # "build" => EdgeShapes(R, Nodes, edges, "k2k", K2KEdgeOK)
SyncShape == phase # "build" => EdgeShapes(R, Nodes, edges, "sync", SyncEdgeOK)
\* every kernel is reachable from the host side: it has a launch, kernel-kernel or (zero-weight) launch edge into its start
KernelsAttached == Done => \A i \in Launches : (\E e \in edges : e.v = SN(NC + i)) \/ (QAtLaunch(i) # 1 /\ ~ZeroLaunch)
\* for the replay into the real builder: print the program and the edges (as event / start-or-end pairs) of every finished behaviour
EdgeOut(e) == [ue |-> Node(Nodes, e.u).ev, us |-> Node(Nodes, e.u).start, ve |-> Node(Nodes, e.v).ev, vs |-> Node(Nodes, e.v).start,
               w |-> e.w, type |-> e.type]
EmitDone == (EmitOn /\ phase = "done") => PrintT("@@E " \o ToJson([prog |-> prog, edges |-> { EdgeOut(e) : e \in edges }]))
=============================================================================
