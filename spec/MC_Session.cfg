SPECIFICATION Spec
CONSTANTS
  MaxLen = 3
  EmitAt = 3
INVARIANT Consistent
INVARIANT OnlyReparseResets
INVARIANT ReparsedIffCalled
INVARIANT Emit
PROPERTY Monotone
CHECK_DEADLOCK FALSE
