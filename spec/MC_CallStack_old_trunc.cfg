SPECIFICATION Spec
CONSTANTS
  N = 3
  T = 4
  Builder = "old"
  ExcludeTouch = TRUE
  U = 2
  EmitOn = FALSE
  TruncEnd = TRUE
  ExcludeZeroPairs = TRUE
INVARIANT TotalOrder
INVARIANT Sortable
INVARIANT LIFO
INVARIANT TreeOK
CHECK_DEADLOCK FALSE
