---------------------------- MODULE Trace_Persist ----------------------------
(***************************************************************************)
(* Trace validation for C19: a history of save / restore / recompute /     *)
(* reweight operations executed on a real critical-path graph (the         *)
(* histories come from MC_Persist), with the projection observed after     *)
(* every operation.  The abstract state of Persist.tla is advanced step by *)
(* step and every observation must be what the specification allows.       *)
(***************************************************************************)
EXTENDS Persist, Json, IOUtils, TLC

Recs == ndJsonDeserialize(IOEnv.OBS_FILE)
VARIABLE i
Slots == {1, 2, 3}
Proj(o) == [g |-> o.g, p |-> o.p, b |-> o.b, pw |-> o.pw]

RECURSIVE Walk(_, _, _, _)
\* returns the set of failing clauses
Walk(steps, k, st, bad) ==
    IF k > Len(steps) THEN bad
    ELSE LET x == steps[k]
             o == Proj(x.obs)
         IN IF x.err # "" THEN Walk(steps, k + 1, st, bad \cup {"no_exception"})
            ELSE CASE x.op = "save" ->
                      Walk(steps, k + 1, [st EXCEPT !.disk[x.s] = st.live],
                           bad \cup (IF SaveOK(st.live, st.disk, x.s, o) THEN {} ELSE {"live_unchanged_by_save"}))
                   [] x.op = "restore" ->
                      Walk(steps, k + 1, [st EXCEPT !.restored[x.s] = o],
                           bad \cup (IF st.disk[x.s] # None /\ o.g = st.disk[x.s].g THEN {} ELSE {"restored_graph_identical"})
                               \cup (IF st.disk[x.s] # None /\ o.p = st.disk[x.s].p THEN {} ELSE {"restored_path_identical"})
                               \cup (IF st.disk[x.s] # None /\ o.b = st.disk[x.s].b THEN {} ELSE {"restored_breakdown_equal"}))
                   [] x.op = "recompute" ->
                      \* the restored object now carries the recomputed path (possibly another longest path, see MC_Persist: Recompute)
                      Walk(steps, k + 1, IF RecomputeOK(st.restored, x.s, o) THEN [st EXCEPT !.restored[x.s] = o] ELSE st,
                           bad \cup (IF RecomputeOK(st.restored, x.s, o) THEN {} ELSE {"recomputed_weight_equal"})
                               \* several longest paths may exist: recomputing may settle on another one of the same weight (the statement asks for the
                               \* weight only); when it settles on the same path, the breakdown must be the same table again
                               \cup (IF st.restored[x.s] # None /\ (o.p = st.restored[x.s].p => o.b = st.restored[x.s].b) THEN {} ELSE {"recomputed_breakdown_equal"}))
                   [] x.op = "save_restored" ->
                      Walk(steps, k + 1, [st EXCEPT !.disk[x.t] = st.restored[x.s]],
                           bad \cup (IF o = st.restored[x.s] THEN {} ELSE {"restored_unchanged_by_save"}))
                   [] x.op = "reweight" ->
                      Walk(steps, k + 1, [st EXCEPT !.live = o], bad)
                   [] OTHER -> Walk(steps, k + 1, st, bad \cup {"unknown_op"})

Verdict(r) == IF r.err # "" THEN {"analysis_succeeded"}
              ELSE Walk(r.steps, 1, [live |-> Proj(r.live0), disk |-> [s \in Slots |-> None], restored |-> [s \in Slots |-> None]], {})
Init == i = 1
Next == /\ i <= Len(Recs)
        /\ PrintT(<<"@@V", Recs[i].id, Verdict(Recs[i])>>)
        /\ i' = i + 1
Spec == Init /\ [][Next]_i
=============================================================================
