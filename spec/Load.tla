------------------------------- MODULE Load -------------------------------
(***************************************************************************)
(* The loader: file entries -> per-rank frames.                            *)
(*   C01  faithful, uniformly shifted image of the file                    *)
(*   C02  correlation links                                                *)
(*   C12  iteration numbers and trimming of the trailing profiler step     *)
(*                                                                         *)
(* A file entry is a record                                                *)
(*   [id, kind, ts, dur, pid, tid, stream, corr, name, cat]                *)
(* kind = "X" for a complete event (has a duration and a category other    *)
(* than the profiler's own "Trace" span), anything else ("T", "M", "s",    *)
(* "f", "i", "N") for entries that must never become rows.  ts and dur are *)
(* in TICKS, U ticks per microsecond, relative to a per-case base.         *)
(* A frame row is [id, ts, dur, end, pid, tid, stream, corr, name, cat,    *)
(* link, iter] with times in microseconds.                                 *)
(***************************************************************************)
EXTENDS TraceModel, TLC

Complete(x) == x.kind = "X"

\* inward rounding: start up, end down
CeilDiv(t, u)  == (t + u - 1) \div u
FloorDiv(t, u) == t \div u

RowTs(x, u)  == CeilDiv(x.ts, u)
RowEnd(x, u) == FloorDiv(x.ts + x.dur, u)
\* the row a complete entry must become (times still relative to the case base)
RowOf(x, u) == [id |-> x.id, ts |-> RowTs(x, u), dur |-> RowEnd(x, u) - RowTs(x, u), end |-> RowEnd(x, u),
                pid |-> x.pid, tid |-> x.tid, stream |-> x.stream, corr |-> x.corr, name |-> x.name, cat |-> x.cat]
Image(F, u) == { RowOf(x, u) : x \in { y \in F : Complete(y) } }

\* the rounding lemma (C01, last sentence), for two fractional spans a, b given in ticks
RoundInward(a, u)  == RowTs(a, u) * u >= a.ts /\ RowEnd(a, u) * u <= a.ts + a.dur
KeepsNesting(a, b, u) == (a.ts <= b.ts /\ b.ts + b.dur <= a.ts + a.dur) =>
                            (RowTs(a, u) <= RowTs(b, u) /\ RowEnd(b, u) <= RowEnd(a, u))
KeepsDisjoint(a, b, u) == (a.ts + a.dur <= b.ts) => RowEnd(a, u) <= RowTs(b, u)

\* the constant subtracted from every start time: the earliest rounded start over ALL ranks
MinTs(Files, u) == SetMin(UNION { { r.ts : r \in Image(Files[k], u) } : k \in DOMAIN Files })

(***************************************************************************)
(* C02: links.  R is the set of rows (of one rank).                        *)
(***************************************************************************)
\* LinkOf(R, e) is defined in TraceModel.tla (also used to check the links other analyses take as input)

(***************************************************************************)
(* C12: iteration numbers and trimming.                                    *)
(***************************************************************************)
\* StepNameOf, StepNumbers, AllStepNames, IsStepName: see TraceModel.tla
StepNoFn == [ s \in AllStepNames |-> CHOOSE n \in StepNumbers : StepNameOf(n) = s ]
StepNo(name) == StepNoFn[name]
Steps(R) == { e \in R : IsStepName(e.name) }

\* the loader's two notions of side for iteration numbers
IterHost(e) == e.stream < 0
IterDev(e)  == e.stream > 0

StepsAt(R, t) == { s \in Steps(R) : s.ts <= t /\ t < s.ts + s.dur }
\* iteration number of a host-side event (spans of distinct steps are disjoint in the input domain)
HostIter(R, e) == IF StepsAt(R, e.ts) = {} THEN -1
                  ELSE StepNo((CHOOSE s \in StepsAt(R, e.ts) : TRUE).name)
IterOf(R, e) ==
    IF IterHost(e) THEN HostIter(R, e)
    ELSE IF IterDev(e)
         THEN LET l == LinkOf(R, e)
              IN IF l > 0 THEN LET p == CHOOSE x \in R : x.id = l IN
                                   IF IterHost(p) THEN HostIter(R, p) ELSE -1
                 ELSE -1
         ELSE -1

\* trimming applies when the whole trace set names at least two distinct profiler steps
StepNames(Rs) == UNION { { s.name : s \in Steps(Rs[k]) } : k \in DOMAIN Rs }
Trims(Rs) == Cardinality(StepNames(Rs)) >= 2

LastStepStart(R) == SetMax({ s.ts : s \in Steps(R) })
LastStepEnd(R)   == SetMax({ s.ts + s.dur : s \in Steps(R) })
KeptHost(R, incl) == { e \in HostEvents(R) :
                          IF incl THEN e.ts <= LastStepEnd(R) ELSE e.ts < LastStepStart(R) }
Kept(R, incl) == KeptHost(R, incl) \cup
                 { d \in DevEvents(R) : \E h \in KeptHost(R, incl) : h.corr = d.corr }

\* every rank of a trace set has the same step numbers; spans of distinct steps are disjoint
StepsWellFormed(Rs) ==
    /\ \A k \in DOMAIN Rs : { s.name : s \in Steps(Rs[k]) } = StepNames(Rs)
    /\ \A k \in DOMAIN Rs : \A a, b \in Steps(Rs[k]) :
          a # b => (a.name # b.name /\ DisjointSpans(a, b) /\ a.dur > 0)
=============================================================================
