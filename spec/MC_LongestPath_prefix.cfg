SPECIFICATION Spec
CONSTANTS
  N = 3
  Weights = {0, 1}
  Fallback = FALSE
INVARIANT RelaxIsMax
INVARIANT WalkBounded
INVARIANT ReportedIsPath
INVARIANT ReportedIsOptimal
CHECK_DEADLOCK FALSE
