------------------------------- MODULE Filters -------------------------------
(***************************************************************************)
(* C18: trace filters as pure row selections.                              *)
(* A frame is a SEQUENCE of rows [uid, ts, dur, stream, corr, name, cat,   *)
(* iter, rank]; a filter is a record whose field k names its class:        *)
(*   [k |-> "iter", its]     iteration value in its                        *)
(*   [k |-> "iteridx", idx]  position (0-based) of the iteration among the *)
(*                           iterations PRESENT in the frame (-1 excluded) *)
(*   [k |-> "rank", ranks]   rank in ranks                                 *)
(*   [k |-> "time", a, b]    the event lies fully inside [a, b]            *)
(*   [k |-> "name", pat]     the name matches the pattern (NameTable)      *)
(*   [k |-> "gpu"] / "cpu"   device side / host side                       *)
(*   [k |-> "memcpy", type]  memory copies of the given type               *)
(* hasST says whether the call passes the trace's symbol table: without it *)
(* the side filters cannot recognise the device-wide synchronisation       *)
(* records (documented) and fall back to the stream / correlation test.    *)
(***************************************************************************)
EXTENDS TraceModel, NameTable

RowLocal(f) == f.k # "iteridx"

PresentIters(F) == { F[j].iter : j \in DOMAIN F } \ {-1}
\* the n-th smallest element (1-based) of a finite set of integers
RECURSIVE Nth(_, _)
Nth(S, n) == IF n = 1 THEN SetMin(S) ELSE Nth(S \ {SetMin(S)}, n - 1)
SelectedIters(F, idx) == LET P == PresentIters(F) IN
                         { Nth(P, k + 1) : k \in { x \in idx : x >= 0 /\ x < Cardinality(P) } }

DevNoST(e) == e.stream >= 0 /\ e.corr >= 0
Pred(f, e, F, hasST) ==
    CASE f.k = "iter"    -> e.iter \in f.its
      [] f.k = "iteridx" -> IF PresentIters(F) = {} THEN TRUE ELSE e.iter \in SelectedIters(F, f.idx)
      [] f.k = "rank"    -> e.rank \in f.ranks
      [] f.k = "time"    -> e.ts >= f.a /\ e.ts + e.dur <= f.b
      [] f.k = "name"    -> e.name \in MatchSet(f.pat)
      [] f.k = "gpu"     -> IF hasST THEN Dev(e) ELSE DevNoST(e)
      [] f.k = "cpu"     -> IF hasST THEN ~Dev(e) ELSE e.stream = -1
      [] f.k = "memcpy"  -> e.name = f.type /\ e.cat = "gpu_memcpy"

RECURSIVE Select(_, _, _, _, _)
Select(F, f, hasST, j, whole) == IF j > Len(F) THEN <<>>
                                 ELSE (IF Pred(f, F[j], whole, hasST) THEN <<F[j]>> ELSE <<>>) \o Select(F, f, hasST, j + 1, whole)
Apply(f, F, hasST) == Select(F, f, hasST, 1, F)

\* a composite filter (or nested calls): left fold
RECURSIVE ApplyAll(_, _, _, _)
ApplyAll(fs, F, hasST, j) == IF j > Len(fs) THEN F ELSE ApplyAll(fs, Apply(fs[j], F, hasST), hasST, j + 1)
Composite(fs, F, hasST) == ApplyAll(fs, F, hasST, 1)

=============================================================================
