SPECIFICATION Spec
CONSTANTS
  N = 4
  T = 3
  Builder = "old"
  ExcludeTouch = TRUE
  U = 1
  EmitOn = FALSE
  TruncEnd = FALSE
  ExcludeZeroPairs = TRUE
INVARIANT TotalOrder
INVARIANT Sortable
INVARIANT LIFO
INVARIANT TreeOK
CHECK_DEADLOCK FALSE
