SPECIFICATION Spec
CONSTANTS
  N = 5
  Corrs = {0, 1}
  WF = TRUE
INVARIANT LinkMeaning
INVARIANT Mutual
INVARIANT Monotone
CHECK_DEADLOCK FALSE
