---------------------------- MODULE TraceModel ----------------------------
(***************************************************************************)
(* Abstract model of a Kineto trace, shared by every other module.         *)
(*                                                                         *)
(* An event is a record                                                    *)
(*   [id, ts, dur, pid, tid, stream, corr, name, cat]                      *)
(* id     position of the entry in the file's traceEvents list             *)
(* ts,dur integers (ticks relative to a per-case base chosen by the        *)
(*        harness; only differences matter)                                *)
(* stream -1 when the entry carries no stream                              *)
(* corr   -1 when the entry carries no correlation id                      *)
(* name, cat strings                                                       *)
(*                                                                         *)
(* Nothing here is executable behaviour; these are the vocabulary and the  *)
(* input-domain predicates that the properties quantify over.  Both the    *)
(* model-checking configurations MC_x and the trace-validation specs     *)
(* Trace_x evaluate exactly these operators.                             *)
(***************************************************************************)
EXTENDS Integers, Sequences, FiniteSets, TLC

Range(s) == { s[i] : i \in DOMAIN s }

Max2(a, b) == IF a >= b THEN a ELSE b
Min2(a, b) == IF a <= b THEN a ELSE b
SetMax(S) == CHOOSE x \in S : \A y \in S : y <= x
SetMin(S) == CHOOSE x \in S : \A y \in S : x <= y

RECURSIVE SumSet(_, _)
\* sum of f[x] over the finite set S
SumSet(S, f) == IF S = {} THEN 0
                ELSE LET x == CHOOSE y \in S : TRUE IN f[x] + SumSet(S \ {x}, f)

RECURSIVE SumSeq(_)
SumSeq(s) == IF s = <<>> THEN 0 ELSE Head(s) + SumSeq(Tail(s))

End(e) == e.ts + e.dur

(***************************************************************************)
(* Sides.  The documented device-side predicate of the loader:             *)
(* an activity on a stream that carries a correlation id, or one of the    *)
(* two device-wide synchronisation records that Kineto puts on stream -1.  *)
(***************************************************************************)
DeviceWideSync == {"Event Sync", "Context Sync"}
Dev(e)  == (e.stream >= 0 /\ e.corr >= 0) \/ e.name \in DeviceWideSync
Host(e) == ~Dev(e)
Side(e) == IF Dev(e) THEN "D" ELSE "H"

\* what the analyzers call a device activity: a row on a stream
OnStream(e) == e.stream # -1

(***************************************************************************)
(* Vocabulary tables (names outside them never occur in generated traces). *)
(***************************************************************************)
CompNames == {"ampere_sgemm_128x64_nn",
              "void at::native::vectorized_elementwise_kernel<4, at::native::AddFunctor<float> >(int, float)",
              "sm80_xmma_gemm_f32f32",
              "void cutlass::Kernel<cutlass_80_tensorop>(Params)",
              "void at::native::vectorized_elementwise_kernel<4, at::native::MulFunctor<float> >(int, float)",
              \* a computation kernel whose name contains the word of another class, not at its start
              "void fbgemm_gpu::fusedMemsetScatter_kernel<float>(float*, int)"}
CommNames == {"ncclKernel_AllReduce_RING_LL_Sum_float(ncclWorkElem)",
              "ncclDevKernel_AllGather_RING_LL(ncclDevComm*)"}
MemcpyNames == {"Memcpy HtoD (Pageable -> Device)", "Memcpy HtoD (Pinned -> Device)", "Memcpy DtoH (Device -> Pageable)",
                "Memcpy DtoD (Device -> Device)"}
MemsetNames == {"Memset (Device)"}
SyncNames == {"Stream Sync", "Context Sync", "Event Sync", "Stream Wait Event"}

KClass(name) == IF name \in CommNames THEN "COMMUNICATION"
                ELSE IF name \in MemcpyNames \cup MemsetNames THEN "MEMORY"
                ELSE IF name \in CompNames THEN "COMPUTATION"
                ELSE "OTHER"       \* synchronisation records and anything unknown

\* documented shortening of long names: return type, template arguments and call arguments removed
ShortName(name) ==
    CASE name = "void at::native::vectorized_elementwise_kernel<4, at::native::AddFunctor<float> >(int, float)" -> "at::native::vectorized_elementwise_kernel"
      [] name = "void at::native::vectorized_elementwise_kernel<4, at::native::MulFunctor<float> >(int, float)" -> "at::native::vectorized_elementwise_kernel"
      [] name = "void cutlass::Kernel<cutlass_80_tensorop>(Params)" -> "cutlass::Kernel"
      [] name = "void fbgemm_gpu::fusedMemsetScatter_kernel<float>(float*, int)" -> "fbgemm_gpu::fusedMemsetScatter_kernel"
      [] name = "ncclKernel_AllReduce_RING_LL_Sum_float(ncclWorkElem)" -> "ncclKernel_AllReduce_RING_LL_Sum_float"
      [] name = "ncclDevKernel_AllGather_RING_LL(ncclDevComm*)" -> "ncclDevKernel_AllGather_RING_LL"
      [] OTHER -> name

KernelLaunchNames == {"cudaLaunchKernel", "cudaLaunchKernelExC", "cuLaunchKernel", "hipLaunchKernel",
                      "hipExtModuleLaunchKernel", "runFunction - job_prep_and_submit_for_execution"}
MemLaunchNames == {"cudaMemcpyAsync", "cudaMemsetAsync", "hipMemcpyAsync", "hipMemsetAsync",
                   "hipMemcpyWithStream"}
LaunchNames == KernelLaunchNames \cup MemLaunchNames
KernelCats == {"kernel", "gpu_memcpy", "gpu_memset"}

(***************************************************************************)
(* Nesting                                                                  *)
(***************************************************************************)
Encloses(a, b) == a.ts <= b.ts /\ End(b) <= End(a)
DisjointSpans(a, b) == End(a) <= b.ts \/ End(b) <= a.ts
\* properly nested: any two spans are nested or disjoint (touching counts as disjoint)
Laminar(S) == \A a, b \in S : Encloses(a, b) \/ Encloses(b, a) \/ DisjointSpans(a, b)

SameThread(a, b) == a.pid = b.pid /\ a.tid = b.tid

(***************************************************************************)
(* Links: the partner of e is the event of the opposite side with the same *)
(* non-negative correlation id.                                            *)
(***************************************************************************)
Partners(T, e) == IF e.corr < 0 THEN {}
                  ELSE { x \in T : x.corr = e.corr /\ Side(x) # Side(e) }

(***************************************************************************)
(* Input domains, as predicates over the set T of complete events of one   *)
(* rank.                                                                   *)
(***************************************************************************)
HostEvents(T) == { e \in T : Host(e) }
DevEvents(T)  == { e \in T : Dev(e) }

\* profiler-step annotations are named "ProfilerStep#<n>"; generated traces use n < 128
StepNameOf(n) == "ProfilerStep#" \o ToString(n)
StepNumbers == (0..127) \cup (32766..32770) \cup (65534..65538)      \* small numbers and numbers around the 16-bit edges (a long run)
AllStepNames == { StepNameOf(n) : n \in StepNumbers }
IsStepName(name) == name \in AllStepNames
\* the loader trims device activities only when the file has at least two distinct profiler steps; otherwise every complete entry of
\* the file must be a row of the loaded frame
NoTrim(file) == Cardinality({ f.name : f \in { g \in file : IsStepName(g.name) } }) < 2
RowsComplete(T, file) == NoTrim(file) => { f.id : f \in file } \subseteq { x.id : x \in T }

\* the link of e: the id of its partner, 0 when the partner is absent, -1 without a correlation id
LinkOf(R, e) == IF e.corr < 0 THEN -1
                ELSE LET P == Partners(R, e)
                     IN IF P = {} THEN 0
                        ELSE IF Cardinality(P) = 1 THEN (CHOOSE p \in P : TRUE).id
                        ELSE -2      \* ambiguous: excluded by WellFormed
\* the link column of the loaded rows is the link relation of the FILE (entries [id, name, cat, stream, corr]): analyses that take the
\* column as their input are judged on inputs that still say what the file said
LinksFaithful(T, file) == \A x \in T : \E f \in file : f.id = x.id /\ x.link = LinkOf(file, f)

\* the part of well-formedness that survives trimming: what holds of the rows of a loaded frame
\* every loaded row still says what the file entry at the position named by its id said
RowsFaithful(T, file) == /\ \A x \in T : \E f \in file : f.id = x.id /\ f.name = x.name /\ f.cat = x.cat /\ f.stream = x.stream /\ f.dur = x.dur
                         /\ RowsComplete(T, file)

WellFormedRows(T) ==
    /\ \A a, b \in HostEvents(T) : SameThread(a, b) =>
           Encloses(a, b) \/ Encloses(b, a) \/ DisjointSpans(a, b)
    /\ \A a, b \in T : (a.corr >= 0 /\ a.corr = b.corr /\ a # b) => Side(a) # Side(b)
    /\ \A e \in T : e.stream >= 0 => e.stream > 0
    \* host-thread events (a device activity that carries no correlation id is on the host side of the link predicate, but not on a host thread)
    /\ \A e \in HostEvents(T) : e.stream = -1 => (e.pid # 0 /\ e.tid # 0)
    /\ \A e \in T : e.id = 0 => (Host(e) /\ e.corr = -1 /\ e.cat = "cpu_op")
\* a whole trace file: additionally its first entry is a host operator (id 0 is the "absent partner" sentinel)
WellFormed(T) == WellFormedRows(T) /\ \E e \in T : e.id = 0

\* device activities of one stream never overlap (a stream is a FIFO)
StreamSerial(T) ==
    \A a, b \in { e \in T : e.stream > 0 /\ e.cat \in KernelCats } :
        (a # b /\ a.stream = b.stream) => DisjointSpans(a, b)

\* device work starts no earlier than its launch call
LaunchCausal(T) ==
    \A k \in DevEvents(T) : \A h \in Partners(T, k) : h.ts <= k.ts

=============================================================================
