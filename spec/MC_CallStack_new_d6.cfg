SPECIFICATION Spec
CONSTANTS
  N = 3
  T = 3
  Builder = "new"
  ExcludeTouch = FALSE
  ExcludeZeroPairs = FALSE
INVARIANT TotalOrder
INVARIANT Sortable
INVARIANT LIFO
INVARIANT TreeOK
CHECK_DEADLOCK FALSE
