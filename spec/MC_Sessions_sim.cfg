SPECIFICATION Spec
CONSTANTS
  MaxLen = 5
  EmitAt = 5
INVARIANT Isolated
INVARIANT Emit
CHECK_DEADLOCK FALSE
