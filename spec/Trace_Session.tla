---------------------------- MODULE Trace_Session ----------------------------
(***************************************************************************)
(* Conformance of a real TraceAnalysis object with Session.tla: after      *)
(* every call of a history the harness records the set of derived columns  *)
(* on the frames and a digest of the loader's columns.                     *)
(***************************************************************************)
EXTENDS Session, Json, IOUtils, TLC
Recs == ndJsonDeserialize(IOEnv.OBS_FILE)
VARIABLE i
Rng(s) == { s[k] : k \in DOMAIN s }
Hist(r, k) == [j \in 1..k |-> r.steps[j].op]
Expect(r, k) == After(Start, Hist(r, k), 1)
Verdictx(r) ==
  [ no_exception |-> r.err = "",
    derived_columns |-> \A k \in DOMAIN r.steps : r.steps[k].err = "" => Rng(r.steps[k].cols) = Expect(r, k).cols,
    loader_columns_intact |-> \A k \in DOMAIN r.steps : (r.steps[k].err = "" /\ ~Expect(r, k).reparsed) => r.steps[k].base = r.base0,
    reparse_is_the_only_reset |-> \A k \in DOMAIN r.steps : (r.steps[k].err = "" /\ r.steps[k].base # r.base0) => Expect(r, k).reparsed ]
Tags(r) == IF \E k \in DOMAIN r.steps : r.steps[k].op = "labeled_trace" THEN {"shape:reparse_in_history"} ELSE {}
Verdict(r) == LET c == Verdictx(r)
                  f == { k \in DOMAIN c : ~c[k] }
              IN IF f = {} THEN {} ELSE f \cup Tags(r)
Init == i = 1
Next == /\ i <= Len(Recs)
        /\ PrintT(<<"@@V", Recs[i].id, Verdict(Recs[i])>>)
        /\ i' = i + 1
Spec == Init /\ [][Next]_i
=============================================================================
