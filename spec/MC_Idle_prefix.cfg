SPECIFICATION Spec
CONSTANTS
  K = 2
  T = 3
  D = 1
  Thrs = {1, 2}
  JoinPositiveOnly = FALSE
INVARIANT IdleMeaning
INVARIANT IdleAddsUp
INVARIANT UnlinkedNeverHostWait
CHECK_DEADLOCK FALSE
