SPECIFICATION Spec
CONSTANTS
  N = 5
  T = 4
  Builder = "key"
  ExcludeTouch = FALSE
  U = 1
  EmitOn = FALSE
  TruncEnd = FALSE
  ExcludeZeroPairs = FALSE
INVARIANT TotalOrder
INVARIANT Sortable
INVARIANT LIFO
INVARIANT TreeOK
INVARIANT AdjacentLess
CHECK_DEADLOCK FALSE
