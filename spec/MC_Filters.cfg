SPECIFICATION Spec
CONSTANTS
  N = 2
  L = 2
INVARIANT Selection
INVARIANT FoldMeaning
INVARIANT Idempotent
INVARIANT Commute
CHECK_DEADLOCK FALSE
