----------------------------- MODULE Trace_Diff -----------------------------
(***************************************************************************)
(* Trace validation for C17: TraceDiff.compare_traces / ops_diff.          *)
(* Record: c, t = control / test side [rows, ranks, iters]; dev; short;    *)
(* table = returned rows [name, cc, tc, cd, td, dc, dd, cat];              *)
(* classes = the five lists returned by ops_diff; self = the two sides are *)
(* the same trace; sameObj = the very same LabeledTrace object was passed  *)
(* as control and as test.                                                 *)
(***************************************************************************)
EXTENDS Diff, Json, IOUtils, TLC

Recs == ndJsonDeserialize(IOEnv.OBS_FILE)
VARIABLE i

SideOf(s) == [rows |-> Range(s.rows), ranks |-> Range(s.ranks), iters |-> Range(s.iters)]
TableNames(r) == { r.table[j].name : j \in DOMAIN r.table }
RowOfName(r, n) == r.table[CHOOSE j \in DOMAIN r.table : r.table[j].name = n]
\* the second comparison of the history (same objects, the other name mode)
Table2OK(r, c, t) ==
    LET sh == ~r.short
        names == NamesOf(c, r.dev, sh) \cup NamesOf(t, r.dev, sh)
        T == r.table2
    IN /\ { T[j].name : j \in DOMAIN T } = names /\ Len(T) = Cardinality(names)
       /\ \A j \in DOMAIN T : T[j].name \in names =>
             /\ T[j].cc = CountOf(c, r.dev, sh, T[j].name) /\ T[j].tc = CountOf(t, r.dev, sh, T[j].name)
             /\ T[j].cd = DurOf(c, r.dev, sh, T[j].name) /\ T[j].td = DurOf(t, r.dev, sh, T[j].name)
             /\ T[j].dc = T[j].tc - T[j].cc /\ T[j].dd = T[j].td - T[j].cd
Sign(d) == IF d > 0 THEN "+" ELSE IF d < 0 THEN "-" ELSE "="
ClassSets(r) == [k \in Classes |-> Range(r.classes[k])]

C17(r) ==
  IF r.err # "" THEN [no_exception |-> FALSE] ELSE
  LET c == SideOf(r.c)  t == SideOf(r.t)
      names == NamesOf(c, r.dev, r.short) \cup NamesOf(t, r.dev, r.short)
  IN
  [ no_exception |-> TRUE,
    \* the iteration numbers the comparison selects by: every device activity carries the iteration of the host call with its correlation id
    \* (also when one call started several activities)
    input_iterations |-> \A side \in {c, t} : \A x \in side.rows : (x.stream > 0 /\ x.corr >= 0) =>
                            \A h \in side.rows : (h.rank = x.rank /\ h.stream = -1 /\ h.corr = x.corr /\ h.name \notin SyncNames) => x.iter = h.iter,
    one_row_per_name |-> TableNames(r) = names /\ Len(r.table) = Cardinality(names),
    counts       |-> \A n \in TableNames(r) \cap names :
                        /\ RowOfName(r, n).cc = CountOf(c, r.dev, r.short, n)
                        /\ RowOfName(r, n).tc = CountOf(t, r.dev, r.short, n),
    durations    |-> \A n \in TableNames(r) \cap names :
                        /\ RowOfName(r, n).cd = DurOf(c, r.dev, r.short, n)
                        /\ RowOfName(r, n).td = DurOf(t, r.dev, r.short, n),
    differences  |-> \A j \in DOMAIN r.table : /\ r.table[j].dc = r.table[j].tc - r.table[j].cc
                                               /\ r.table[j].dd = r.table[j].td - r.table[j].cd
                                               /\ r.table[j].cat = Sign(r.table[j].dc),
    classes_disjoint |-> r.hasClasses => \A a, b \in Classes : a # b => ClassSets(r)[a] \cap ClassSets(r)[b] = {},
    classes_cover    |-> r.hasClasses => UNION { ClassSets(r)[k] : k \in Classes } = NamesOf(c, r.dev, FALSE) \cup NamesOf(t, r.dev, FALSE),
    classes_meaning  |-> r.hasClasses => \A k \in Classes : \A n \in ClassSets(r)[k] :
                            ClassOfCounts(CountOf(c, r.dev, FALSE, n), CountOf(t, r.dev, FALSE, n)) = k,
    second_call_other_names |-> Table2OK(r, c, t),
    self_compare |-> r.self => /\ \A j \in DOMAIN r.table : r.table[j].dc = 0 /\ r.table[j].dd = 0
                               /\ (r.hasClasses => \A k \in Classes \ {"unchanged"} : ClassSets(r)[k] = {}) ]

Tags(r) == (IF r.sameObj THEN {"shape:same_object"} ELSE {})
Verdict(r) == LET c == C17(r)
                  f == { k \in DOMAIN c : ~c[k] }
              IN IF f = {} THEN {} ELSE f \cup Tags(r)

Init == i = 1
Next == /\ i <= Len(Recs)
        /\ PrintT(<<"@@V", Recs[i].id, Verdict(Recs[i])>>)
        /\ i' = i + 1
Spec == Init /\ [][Next]_i
=============================================================================
