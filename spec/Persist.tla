------------------------------- MODULE Persist -------------------------------
(***************************************************************************)
(* C19: saving and restoring critical-path graphs.                         *)
(*                                                                         *)
(* A graph is abstracted to its observable projection                      *)
(*   [g  : nodes, edges, weights, edge types, event attributions           *)
(*    p  : critical path (node list, event set, edge set)                  *)
(*    b  : breakdown table                                                 *)
(*    pw : total weight of the critical path]                              *)
(* (in the model: opaque values; in trace validation: digests computed     *)
(* from the real objects).                                                 *)
(*                                                                         *)
(* State: live = the analysed graph; disk[s] = what slot s holds;          *)
(* restored[s] = the object last restored from slot s.                     *)
(* Actions: Save(s), Restore(s), Recompute(s) = critical_path() on the     *)
(* restored object of slot s, Reweight = a what-if edit of the live graph  *)
(* followed by critical_path(), SaveRestored(s, t) = saving a restored     *)
(* object again (cycles).                                                  *)
(***************************************************************************)
EXTENDS Integers, Sequences, FiniteSets

None == [g |-> "none", p |-> "none", b |-> "none", pw |-> -1]

\* what each action must do to the abstract state, given the projection `obs` that was observed
SaveOK(live, disk, s, obs) == obs = live
RestoreOK(disk, s, obs) == disk[s] # None /\ obs = disk[s]
\* recomputing on a restored graph: same graph, a path of the same total weight, same breakdown total
RecomputeOK(restored, s, obs) == /\ restored[s] # None
                                 /\ obs.g = restored[s].g
                                 /\ obs.pw = restored[s].pw
=============================================================================
