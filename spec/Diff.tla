-------------------------------- MODULE Diff --------------------------------
(***************************************************************************)
(* C17: trace comparison.  A side is [rows, ranks, iters] where rows is    *)
(* the set of events [rank, id, name, dur, stream, iter] of a trace set    *)
(* (as parsed), ranks / iters the selected ranks and iterations.           *)
(***************************************************************************)
EXTENDS TraceModel

DevSel(e, dev) == CASE dev = "CPU" -> e.stream = -1
                    [] dev = "GPU" -> e.stream # -1
                    [] OTHER -> TRUE
Selected(side, dev) == { e \in side.rows : e.rank \in side.ranks /\ e.iter \in side.iters /\ DevSel(e, dev) }
Key(e, short) == IF short THEN ShortName(e.name) ELSE e.name
NamesOf(side, dev, short) == { Key(e, short) : e \in Selected(side, dev) }
CountOf(side, dev, short, n) == Cardinality({ e \in Selected(side, dev) : Key(e, short) = n })
DurOf(side, dev, short, n) == LET S == { e \in Selected(side, dev) : Key(e, short) = n } IN SumSet(S, [e \in S |-> e.dur])

\* the five change classes of a (control count, test count) pair
ClassOfCounts(c, t) == IF c = 0 /\ t > 0 THEN "added"
                       ELSE IF c > 0 /\ t = 0 THEN "deleted"
                       ELSE IF c > 0 /\ t > c THEN "increased"
                       ELSE IF t > 0 /\ t < c THEN "decreased"
                       ELSE IF t > 0 /\ t = c THEN "unchanged"
                       ELSE "none"
Classes == {"added", "deleted", "increased", "decreased", "unchanged"}
=============================================================================
