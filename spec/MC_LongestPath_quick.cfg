SPECIFICATION Spec
CONSTANTS
  N = 4
  Weights = {0, 1, 2}
  Fallback = TRUE
INVARIANT RelaxIsMax
INVARIANT WalkBounded
INVARIANT ReportedIsPath
INVARIANT ReportedIsOptimal
CHECK_DEADLOCK FALSE
