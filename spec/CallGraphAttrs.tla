--------------------------- MODULE CallGraphAttrs ---------------------------
(***************************************************************************)
(* C13: the enhanced call graph of one rank -- device activities hang      *)
(* beneath the host call linked to them; depth, height and the five kernel *)
(* aggregates agree with the tree; backward-thread linking.                *)
(* C16: frequent kernel sequences under an operator.                       *)
(*                                                                         *)
(* R is the set of rows of the rank's frame after CallGraph(...) has run:  *)
(*   [id, ts, dur, pid, tid, stream, link, name, cat,                      *)
(*    parent, depth, height, nk, ksum, kfirst, klast, kspan]               *)
(* "The tree" is the parent column; negative parents mean the root.        *)
(***************************************************************************)
EXTENDS CallStack

RowById(R, id) == CHOOSE x \in R : x.id = id
\* device activities that take part in the graph: on a positive stream and linked to a host call
DevChild(e) == e.stream > 0 /\ e.link > 0
HostRow(e) == e.stream = -1 /\ e.pid # 0 /\ e.tid # 0    \* device-wide sync records (pid 0) are not host-thread events
Children(R, e) == { c \in R : c.parent = e.id }

RECURSIVE Descend(_, _, _)
Descend(R, frontier, fuel) ==
    IF frontier = {} \/ fuel = 0 THEN {}
    ELSE LET nxt == { c \in R : \E p \in frontier : c.parent = p.id } IN nxt \cup Descend(R, nxt, fuel - 1)
Descendants(R, e) == Descend(R, {e}, Cardinality(R))
KernelDesc(R, e) == { k \in Descendants(R, e) : DevChild(k) }

RECURSIVE HeightOf(_, _, _)
HeightOf(R, e, fuel) ==
    IF DevChild(e) THEN 0
    ELSE IF fuel = 0 THEN -1000
    ELSE LET C == Children(R, e) IN
         IF C = {} THEN 1 ELSE 1 + SetMax({ HeightOf(R, c, fuel - 1) : c \in C })

RECURSIVE DepthOfRow(_, _, _)
DepthOfRow(R, e, fuel) ==
    IF e.parent < 0 THEN 0
    ELSE IF fuel = 0 \/ ~\E p \in R : p.id = e.parent THEN -1000
    ELSE 1 + DepthOfRow(R, RowById(R, e.parent), fuel - 1)

InTree(e) == HostRow(e) \/ DevChild(e)

DeviceParentOK(R) == /\ \A k \in R : DevChild(k) => k.parent = k.link
                     \* a device activity whose launch call is absent from the trace hangs beneath nothing
                     /\ \A k \in R : (k.stream > 0 /\ k.link <= 0) => k.parent < 0
DepthAgrees(R) == \A e \in R : InTree(e) => e.depth = DepthOfRow(R, e, Cardinality(R))
HeightAgrees(R) == \A e \in R : InTree(e) => e.height = HeightOf(R, e, Cardinality(R))
KEnd(k) == k.ts + k.dur
AggOK(R, e) ==
    LET K == KernelDesc(R, e) IN
    IF K = {} THEN e.nk = 0 /\ e.ksum = 0 /\ e.kfirst = -1 /\ e.klast = -1 /\ e.kspan = 0
    ELSE /\ e.nk = Cardinality(K)
         /\ e.ksum = SumSet(K, [k \in K |-> k.dur])
         /\ e.kfirst = SetMin({ k.ts : k \in K })
         /\ e.klast = SetMax({ KEnd(k) : k \in K })
         /\ e.kspan = SetMax({ KEnd(k) : k \in K }) - SetMin({ k.ts : k \in K })
NumKernelsOK(R) == \A e \in R : HostRow(e) => e.nk = Cardinality(KernelDesc(R, e))
KernelSumOK(R) == \A e \in R : HostRow(e) => LET K == KernelDesc(R, e) IN e.ksum = SumSet(K, [k \in K |-> k.dur])
KernelFirstOK(R) == \A e \in R : HostRow(e) => LET K == KernelDesc(R, e) IN
                        e.kfirst = IF K = {} THEN -1 ELSE SetMin({ k.ts : k \in K })
KernelLastOK(R) == \A e \in R : HostRow(e) => LET K == KernelDesc(R, e) IN
                        e.klast = IF K = {} THEN -1 ELSE SetMax({ KEnd(k) : k \in K })
KernelSpanOK(R) == \A e \in R : HostRow(e) => LET K == KernelDesc(R, e) IN
                        e.kspan = IF K = {} THEN 0 ELSE SetMax({ KEnd(k) : k \in K }) - SetMin({ k.ts : k \in K })

(***************************************************************************)
(* Host parents inside one thread follow C03; across threads only the      *)
(* backward linking may re-parent a top-level operator.                    *)
(***************************************************************************)
ThreadOf(e) == <<e.pid, e.tid>>
HostThreads(R) == { ThreadOf(e) : e \in { x \in R : HostRow(x) /\ x.pid # 0 /\ x.tid # 0 } }
ThreadRows(R, th) == { e \in R : HostRow(e) /\ ThreadOf(e) = th }
\* is.step / is.bwd / is.auto are name classes computed by the harness with Python string functions:
\*   step: name starts with "ProfilerStep#";  bwdann: name starts with "## backward ##";  auto: name contains "autograd::"
MainThreads(R) == { th \in HostThreads(R) : \E e \in ThreadRows(R, th) : e.step }
AutoThreads(R) == { th \in HostThreads(R) \ MainThreads(R) : \E e \in ThreadRows(R, th) : e.auto }
LinkingApplies(R) == Cardinality(MainThreads(R)) = 1 /\ Cardinality(AutoThreads(R)) = 1
Anchors(R) == LET mt == CHOOSE th \in MainThreads(R) : TRUE
                  b == { e \in ThreadRows(R, mt) : e.bwdann }
              IN IF b # {} THEN b ELSE { e \in ThreadRows(R, mt) : e.step }
TopLevel(R, th) == { e \in ThreadRows(R, th) : ~\E p \in ThreadRows(R, th) : Above(p, e) }
Within(a, e) == a.ts <= e.ts /\ e.ts + e.dur <= a.ts + a.dur
BwdLinkOK(R) ==
    LinkingApplies(R) =>
        LET at == CHOOSE th \in AutoThreads(R) : TRUE IN
        \A o \in { x \in TopLevel(R, at) : x.dur > 0 } :
            LET A == { a \in Anchors(R) : Within(a, o) } IN
            IF A = {} THEN o.parent < 0 ELSE \E a \in A : o.parent = a.id
\* without linking, a positive-duration top-level operator stays at the root and every other positive host event has
\* its thread-local parent
HostParentsOK(R) ==
    \A th \in HostThreads(R) : \A e \in { x \in ThreadRows(R, th) : x.dur > 0 } :
        LET p == ParentPos(ThreadRows(R, th), e) IN
        IF p # Root THEN e.parent = p
        ELSE (e.parent < 0 \/ (LinkingApplies(R) /\ th \in AutoThreads(R)))

(***************************************************************************)
(* C16.  m marks rows whose name contains the operator name.               *)
(***************************************************************************)
Candidates(R) == { e \in R : e.m }
MinDepth(R) == SetMin({ DepthOfRow(R, e, Cardinality(R)) : e \in Candidates(R) })
Instances(R, minLen) == { e \in Candidates(R) : /\ DepthOfRow(R, e, Cardinality(R)) = MinDepth(R)
                                                /\ Cardinality(KernelDesc(R, e)) >= minLen }
\* the kernels beneath an instance, as the sequence of names in start-time order (starts are distinct in the domain)
RECURSIVE SortedNames(_)
SortedNames(K) == IF K = {} THEN <<>>
                  ELSE LET k == CHOOSE x \in K : \A y \in K : x.ts <= y.ts IN <<k.name>> \o SortedNames(K \ {k})
PatternOf(R, e) == <<e.name>> \o SortedNames(KernelDesc(R, e))
DistinctStarts(R, minLen) == \A e \in Instances(R, minLen) : \A a, b \in KernelDesc(R, e) : a # b => a.ts # b.ts
Patterns(R, minLen) == { PatternOf(R, e) : e \in Instances(R, minLen) }
PatCount(R, minLen, p) == Cardinality({ e \in Instances(R, minLen) : PatternOf(R, e) = p })
PatCpu(R, minLen, p) == LET I == { e \in Instances(R, minLen) : PatternOf(R, e) = p } IN SumSet(I, [e \in I |-> e.dur])
PatGpu(R, minLen, p) == LET I == { e \in Instances(R, minLen) : PatternOf(R, e) = p } IN
                        SumSet(I, [e \in I |-> LET K == KernelDesc(R, e) IN SumSet(K, [k \in K |-> k.dur])])
=============================================================================
