--------------------------- MODULE Trace_Counters ---------------------------
(***************************************************************************)
(* Trace validation for C14 (queue length, memory bandwidth, counter       *)
(* events), C15 (launch statistics) and C06 (idle-time breakdown).         *)
(***************************************************************************)
EXTENDS Counters, Json, IOUtils, TLC

Recs == ndJsonDeserialize(IOEnv.OBS_FILE)
VARIABLE i
Rows(rk) == Range(rk.rows)
All(r, P(_)) == \A rk \in Range(r.ranks) : P(rk)

\* ---- C14
\* one row per launch and one per activity of every linked pair (as multisets of (stream, timestamp)); rows carry the pid / tid of a
\* device activity of that stream.  Rows are not identified by ids: how the series is indexed is not part of the statement.
QRowsOK(rk) ==
    LET R == Rows(rk)  It == QueueItems(R)  S == rk.q IN
    /\ Len(S) = 2 * Cardinality(It)
    /\ SeriesRows(S, It)
    /\ \A j \in DOMAIN S : \E x \in It : x.key = S[j].key /\ S[j].pid = ById(R, x.kid).pid /\ S[j].tid = ById(R, x.kid).tid
CEMatch(events, S, m, byName) ==
    /\ Len(events) = Len(S)
    /\ \A j \in DOMAIN S : /\ events[j].ts = S[j].ts + m
                           /\ events[j].val = S[j].val
                           /\ events[j].pid = S[j].pid
                           /\ IF byName THEN events[j].name = S[j].key ELSE events[j].sid = S[j].key

C14(r) ==
  IF r.err # "" THEN [no_exception |-> FALSE] ELSE
  [ no_exception |-> TRUE,
    in_domain    |-> All(r, LAMBDA rk : WellFormedRows(Rows(rk))),
    input_faithful |-> All(r, LAMBDA rk : RowsFaithful(Rows(rk), Range(rk.file)) /\ LinksFaithful(Rows(rk), Range(rk.file))),
    q_rows       |-> All(r, LAMBDA rk : QRowsOK(rk)),
    q_values     |-> All(r, LAMBDA rk : SeriesMatches(rk.q, QueueItems(Rows(rk)))),
    q_ordered    |-> All(r, LAMBDA rk : SeriesOrdered(rk.q)),
    q_nonneg     |-> All(r, LAMBDA rk : QueueCausal(Rows(rk)) => \A j \in DOMAIN rk.q : rk.q[j].val >= 0),
    q_final      |-> All(r, LAMBDA rk : SeriesEndsAtZero(rk.q)),
    bw_rows      |-> All(r, LAMBDA rk : SeriesRows(rk.bw, BwItems(Rows(rk))) /\ Len(rk.bw) = 2 * Cardinality(BwItems(Rows(rk)))),
    bw_values    |-> All(r, LAMBDA rk : SeriesMatches(rk.bw, BwItems(Rows(rk)))),
    bw_ordered   |-> All(r, LAMBDA rk : SeriesOrdered(rk.bw)),
    bw_nonneg    |-> All(r, LAMBDA rk : \A j \in DOMAIN rk.bw : rk.bw[j].val >= 0),
    ce_queue     |-> All(r, LAMBDA rk : CEMatch(rk.ceq, rk.q, r.minTs, FALSE)),
    ce_bw        |-> All(r, LAMBDA rk : CEMatch(rk.cebw, rk.bw, r.minTs, TRUE)),
    \* beyond the property: one blocked-time row per (rank, stream) that reaches the length, with the time read off the series
    beyond_blocked_time |-> r.blockedErr = "" /\ All(r, LAMBDA rk : Range(rk.blocked) = BlockedRows(rk.q, 1) \cup BlockedRows(rk.q, 2)),
    \* beyond the property: the summaries are the per-key count / min / max / mean of the series the same object returns
    beyond_queue_summary |-> r.summaryErr = "" /\ All(r, LAMBDA rk : SummaryOK(Range(rk.qsum), rk.q, DOMAIN rk.q)),
    beyond_bw_summary    |-> r.summaryErr = "" /\ All(r, LAMBDA rk : SummaryOK(Range(rk.bwsum), rk.bw, PositivePoints(rk.bw))) ]

\* ---- C15
C15(r) ==
  IF r.err # "" THEN [no_exception |-> FALSE] ELSE
  [ no_exception |-> TRUE,
    in_domain    |-> All(r, LAMBDA rk : WellFormedRows(Rows(rk))),
    input_faithful |-> All(r, LAMBDA rk : RowsFaithful(Rows(rk), Range(rk.file)) /\ LinksFaithful(Rows(rk), Range(rk.file))),
    rows_required|-> All(r, LAMBDA rk : RequiredStats(Rows(rk), r.mem) \subseteq Range(rk.stats)),
    rows_only    |-> All(r, LAMBDA rk : Range(rk.stats) \subseteq RequiredStats(Rows(rk), r.mem) \cup OptionalStats(Rows(rk))),
    rows_once    |-> All(r, LAMBDA rk : Cardinality({ rk.stats[j].corr : j \in DOMAIN rk.stats }) = Len(rk.stats)) ]

\* ---- C06
Cats == {"host_wait", "kernel_wait", "other"}
Reported(rk, s, c) == LET js == { j \in DOMAIN rk.out : rk.out[j].stream = s /\ rk.out[j].cat = c }
                      IN SumSet(js, [j \in js |-> rk.out[j].idle])
StreamsOf(rk) == Range(rk.streams)
C06(r) ==
  IF r.err # "" THEN [no_exception |-> FALSE] ELSE
  [ no_exception |-> TRUE,
    in_domain    |-> All(r, LAMBDA rk : WellFormedRows(Rows(rk)) /\ SerialWithTies(Rows(rk))),
    input_faithful |-> All(r, LAMBDA rk : RowsFaithful(Rows(rk), Range(rk.file)) /\ LinksFaithful(Rows(rk), Range(rk.file))),
    idle_by_cat  |-> All(r, LAMBDA rk : \A s \in StreamsOf(rk) : \A c \in Cats :
                           Reported(rk, s, c) = IdleSum(Rows(rk), s, c, r.thr)),
    only_streams |-> All(r, LAMBDA rk : \A j \in DOMAIN rk.out : rk.out[j].stream \in StreamsOf(rk) /\ rk.out[j].cat \in Cats),
    one_row      |-> All(r, LAMBDA rk : \A a, b \in DOMAIN rk.out :
                           (rk.out[a].stream = rk.out[b].stream /\ rk.out[a].cat = rk.out[b].cat) => a = b),
    sums_to_idle |-> All(r, LAMBDA rk : \A s \in StreamsOf(rk) :
                           Reported(rk, s, "host_wait") + Reported(rk, s, "kernel_wait") + Reported(rk, s, "other")
                             = StreamSpanMinusBusy(Rows(rk), s)),
    ratios       |-> All(r, LAMBDA rk : \A s \in StreamsOf(rk) :
                           LET js == { j \in DOMAIN rk.out : rk.out[j].stream = s }
                               tot == StreamSpanMinusBusy(Rows(rk), s)
                           IN tot > 0 =>
                                /\ \A j \in js : 2 * Abs(rk.out[j].ratio * tot - 100 * rk.out[j].idle) <= tot + 2
                                /\ Abs(SumSet(js, [j \in js |-> rk.out[j].ratio]) - 100) <= Cardinality(js)),
    \* beyond the property: with show_idle_interval_stats the second frame has, per stream and category with at least one interval,
    \* one row with the number, smallest, largest and (through the mean) total of those intervals
    beyond_interval_stats |-> r.statsErr = "" /\ All(r, LAMBDA rk : \A s \in StreamsOf(rk) : \A c \in Cats :
                           LET js == { j \in DOMAIN rk.stats : rk.stats[j].stream = s /\ rk.stats[j].cat = c }
                               ks == IdleGapKernels(Rows(rk), s, c, r.thr)
                           IN IF ks = {} THEN \A j \in js : rk.stats[j].count = 0
                              ELSE /\ Cardinality(js) = 1
                                   /\ \A j \in js : LET x == rk.stats[j]  y == IdleStatRow(Rows(rk), s, c, r.thr) IN
                                         x.count = y.count /\ x.min = y.min /\ x.max = y.max /\ 2 * Abs(x.total - y.total) <= y.count) ]

Clauses(r) == CASE r.prop = "C14" -> C14(r)
                [] r.prop = "C15" -> C15(r)
                [] r.prop = "C06" -> C06(r)
Verdict(r) == LET c == Clauses(r) IN { k \in DOMAIN c : ~c[k] }

Init == i = 1
Next == /\ i <= Len(Recs)
        /\ PrintT(<<"@@V", Recs[i].id, Verdict(Recs[i])>>)
        /\ i' = i + 1
Spec == Init /\ [][Next]_i
=============================================================================
