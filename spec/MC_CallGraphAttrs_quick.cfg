SPECIFICATION Spec
CONSTANTS
  H = 3
  K = 2
  TS = 2
  DS = 1
INVARIANT AttrsMeaning
INVARIANT PartialCounts
CHECK_DEADLOCK FALSE
