-------------------------- MODULE Trace_SymbolTable --------------------------
(***************************************************************************)
(* Trace validation for C11.                                               *)
(* kind = "ops":  a history of operations on a real TraceSymbolTable (the  *)
(*   operations come from TLC-simulated behaviours of MC_SymbolTable);     *)
(*   after every operation the real sym_table, sym_index and scratch table *)
(*   were recorded.  Every step must be a step the specification allows.   *)
(* kind = "load": the same rank files loaded under several configurations  *)
(*   (interpreter hash seed, process pool on/off, forced worker completion *)
(*   order, explicit renumbering of the loaded table); for each: the       *)
(*   global table, every rank's decoded name/category strings next to the  *)
(*   file's strings, and digests of the decoded frames and of the outputs  *)
(*   of the analyses.                                                      *)
(***************************************************************************)
EXTENDS SymbolTable, Json, IOUtils, TLC

Recs == ndJsonDeserialize(IOEnv.OBS_FILE)
VARIABLE i

IndexOK(st) == /\ { p[1] : p \in Rng(st.index) } = Rng(st.table)
               /\ \A p \in Rng(st.index) : \E k \in DOMAIN st.table : st.table[k] = p[1] /\ p[2] = k - 1
               /\ Len(st.index) = Len(st.table)
Allowed(prev, st) ==
    CASE st.op = "add"     -> st.table = AddAll(prev.table, st.arg[1]) /\ st.scratch = prev.scratch
      [] st.op = "add_mp"  -> /\ \E arrival \in Interleavings(st.arg) : st.table = AddAll(prev.table, arrival)
                              /\ st.scratch = prev.scratch
      [] st.op = "clone"   -> st.table = prev.table /\ st.scratch = prev.table
      [] st.op = "combine" -> st.table = AddAll(AddAll(<<>>, prev.scratch), prev.table) /\ st.scratch = prev.scratch
      [] OTHER -> FALSE
Prev(r, k) == IF k = 1 THEN [table |-> <<>>, scratch |-> <<>>] ELSE r.steps[k - 1]

Ops(r) ==
  [ no_exception  |-> r.err = "",
    step_allowed  |-> \A k \in DOMAIN r.steps : Allowed(Prev(r, k), r.steps[k]),
    index_matches |-> \A k \in DOMAIN r.steps : IndexOK(r.steps[k]),
    bijection     |-> \A k \in DOMAIN r.steps : TableBijection(r.steps[k].table) /\ TableBijection(r.steps[k].scratch),
    ids_stable    |-> \A k \in DOMAIN r.steps : r.steps[k].op \in {"add", "add_mp"} => AppendOnly(Prev(r, k).table, r.steps[k].table) ]

Load(r) ==
  [ no_exception |-> \A c \in Rng(r.configs) : c.err = "",
    bijection    |-> \A c \in Rng(r.configs) : c.err = "" => TableBijection(c.table),
    decode_after_load |-> \A c \in Rng(r.configs) : c.err = "" =>
                             \A rk \in Rng(c.ranks) : rk.names = rk.filenames /\ rk.cats = rk.filecats,
    \* history on one Trace: the first rank parsed, then a rank with a larger vocabulary parsed alone: ids already assigned stay, the rows of
    \* the first rank still decode to the same strings (AppendOnlyStep of the model, observed on the real table)
    ids_stable_in_history |-> \A c \in Rng(r.configs) : c.err = "" => c.growOk,
    frames_independent  |-> \A c, d \in Rng(r.configs) : (c.err = "" /\ d.err = "") => c.frames = d.frames,
    results_independent |-> \A c, d \in Rng(r.configs) : (c.err = "" /\ d.err = "") => c.outputs = d.outputs ]

Clauses(r) == IF r.kind = "ops" THEN Ops(r) ELSE Load(r)
Verdict(r) == LET c == Clauses(r) IN { k \in DOMAIN c : ~c[k] }
Init == i = 1
Next == /\ i <= Len(Recs)
        /\ PrintT(<<"@@V", Recs[i].id, Verdict(Recs[i])>>)
        /\ i' = i + 1
Spec == Init /\ [][Next]_i
=============================================================================
