------------------------------- MODULE MC_Idle -------------------------------
(***************************************************************************)
(* C06: the idle-time breakdown as the code computes it.                   *)
(*   (join)   every kernel row looks up the start of its launch call by    *)
(*            joining its link against the frame index; with               *)
(*            JoinPositiveOnly = FALSE (pinned tree before the fix) the    *)
(*            sentinel 0 hits event 0                                      *)
(*   Row      per stream, kernels in start order: gap to the previous end  *)
(*            (shift(1)), three masks host_wait / kernel_wait / other,     *)
(*            accumulate per category                                      *)
(* Scope: event 0 (a host operator starting at E0), K kernels on streams   *)
(* {7, 9} in strict FIFO order, each linked to a launch call that starts   *)
(* no later than the kernel or unlinked (launch outside the trace).        *)
(***************************************************************************)
EXTENDS Counters, TLC

CONSTANTS K, T, D, Thrs, JoinPositiveOnly

KSpec == [stream : {7, 9}, ts : 0..T, dur : 0..D, lts : 0..(T + 1)]   \* lts = T+1: unlinked
Ord(k) == ((k.stream * (T + 1) + k.ts) * (D + 1) + k.dur) * (T + 2) + k.lts
Inputs == { s \in [1..K -> KSpec] :
              /\ \A j \in 1..(K - 1) : Ord(s[j]) < Ord(s[j + 1])
              /\ \A j \in 1..K : s[j].lts <= s[j].ts \/ s[j].lts = T + 1 }

VARIABLES ks, e0, thr, todo, prevEnd, acc, phase
vars == <<ks, e0, thr, todo, prevEnd, acc, phase>>

Linked(j) == ks[j].lts <= T
\* the frame: event 0, launch rows 1..K (only for linked kernels), kernel rows K+1..2K
R == { [id |-> 0, ts |-> e0, dur |-> 1, stream |-> -1, corr |-> -1, name |-> "aten::add", cat |-> "cpu_op", link |-> -1] }
     \cup { [id |-> j, ts |-> ks[j].lts, dur |-> 0, stream |-> -1, corr |-> j, name |-> "cudaLaunchKernel", cat |-> "cuda_runtime",
             link |-> K + j] : j \in { x \in 1..K : Linked(x) } }
     \cup { [id |-> K + j, ts |-> ks[j].ts, dur |-> ks[j].dur, stream |-> ks[j].stream, corr |-> j, name |-> "ampere_sgemm_128x64_nn",
             cat |-> "kernel", link |-> IF Linked(j) THEN j ELSE 0] : j \in 1..K }
KRow(j) == ById(R, K + j)

\* the join: launch start looked up through the link; -1 stands for NaN (no match)
TsRuntime(j) == LET l == KRow(j).link IN
                IF l > 0 THEN ById(R, l).ts
                ELSE IF l = 0 /\ ~JoinPositiveOnly THEN e0
                ELSE -1

Cats == {"host_wait", "kernel_wait", "other"}
Init == /\ ks \in Inputs /\ e0 \in 0..T /\ thr \in Thrs
        /\ StrictSerial(R) = TRUE
        /\ todo = 1..K
        /\ prevEnd = [s \in {7, 9} |-> -1]           \* -1: no previous kernel on the stream (NaN)
        /\ acc = [s \in {7, 9} |-> [c \in Cats |-> 0]]
        /\ phase = "rows"

Row == /\ phase = "rows" /\ todo # {}
       /\ \E j \in todo :
            /\ \A x \in todo : ks[x].stream = ks[j].stream => ks[j].ts <= ks[x].ts
            /\ LET s == ks[j].stream
                   pe == prevEnd[s]
                   gap == ks[j].ts - pe
                   hostWait == pe >= 0 /\ TsRuntime(j) >= 0 /\ TsRuntime(j) > pe
                   kernelWait == ~hostWait /\ pe >= 0 /\ gap < thr
                   cat == IF hostWait THEN "host_wait" ELSE IF kernelWait THEN "kernel_wait" ELSE "other"
               IN /\ acc' = IF pe >= 0 THEN [acc EXCEPT ![s][cat] = @ + gap] ELSE acc
                  /\ prevEnd' = [prevEnd EXCEPT ![s] = ks[j].ts + ks[j].dur]
            /\ todo' = todo \ {j}
       /\ UNCHANGED <<ks, e0, thr, phase>>
Finish == /\ phase = "rows" /\ todo = {} /\ phase' = "done" /\ UNCHANGED <<ks, e0, thr, todo, prevEnd, acc>>
Next == Row \/ Finish
Spec == Init /\ [][Next]_vars

IdleMeaning == phase = "done" => \A s \in {7, 9} : \A c \in Cats : acc[s][c] = IdleSum(R, s, c, thr)
IdleAddsUp == phase = "done" => \A s \in {7, 9} :
                 acc[s]["host_wait"] + acc[s]["kernel_wait"] + acc[s]["other"] = StreamSpanMinusBusy(R, s)
UnlinkedNeverHostWait == \A s \in {7, 9} : (\A j \in 1..K : ks[j].stream = s => ~Linked(j)) => acc[s]["host_wait"] = 0
=============================================================================
