--------------------------- MODULE Trace_Breakdown ---------------------------
(***************************************************************************)
(* Trace validation for the breakdown analyses (C04, C05, C06, C07).       *)
(* Each record of the observation file holds what the real code was given  *)
(* (the rows of the loaded frames) and what its public API returned; TLC   *)
(* evaluates the declarative operators of Breakdown.tla -- the same ones   *)
(* the model checking uses -- on every record and prints one verdict line  *)
(* per record: the set of failing clauses (empty = accepted).              *)
(***************************************************************************)
EXTENDS Breakdown, Json, IOUtils, TLC

Recs == ndJsonDeserialize(IOEnv.OBS_FILE)

VARIABLE i
Streamed(rk) == { rk.rows[j] : j \in { k \in DOMAIN rk.rows : OnStream(rk.rows[k]) } }
Ranks(r) == Range(r.ranks)
All(r, P(_)) == \A rk \in Ranks(r) : P(rk)

------------------------------------------------------------------------------
\* C04
C04(r) ==
  IF r.err # "" THEN [no_exception |-> FALSE] ELSE
  [ no_exception     |-> TRUE,
    in_domain        |-> All(r, LAMBDA rk : Streamed(rk) # {}),
    input_faithful |-> All(r, LAMBDA rk : RowsFaithful(Range(rk.rows), Range(rk.file))),
    kernel_time      |-> All(r, LAMBDA rk : rk.ktime = KernelTime(Streamed(rk))),
    idle_time        |-> All(r, LAMBDA rk : rk.idle = IdleTime(Streamed(rk))),
    compute_time     |-> All(r, LAMBDA rk : rk.comp = ComputeTime(Streamed(rk))),
    non_compute_time |-> All(r, LAMBDA rk : rk.ncomp = NonComputeTime(Streamed(rk))),
    parts_nonneg     |-> All(r, LAMBDA rk : rk.idle >= 0 /\ rk.comp >= 0 /\ rk.ncomp >= 0),
    parts_sum        |-> All(r, LAMBDA rk : rk.idle + rk.comp + rk.ncomp = rk.ktime),
    percentages      |-> All(r, LAMBDA rk : rk.ktime > 0 =>
                               /\ PctOK(rk.idleP, rk.idle, rk.ktime)
                               /\ PctOK(rk.compP, rk.comp, rk.ktime)
                               /\ PctOK(rk.ncompP, rk.ncomp, rk.ktime)) ]

\* C07
C07(r) ==
  IF r.err # "" THEN [no_exception |-> FALSE] ELSE
  [ no_exception |-> TRUE,
    in_domain     |-> All(r, LAMBDA rk : OfClass(Streamed(rk), "COMMUNICATION") # {}),
    input_faithful |-> All(r, LAMBDA rk : RowsFaithful(Range(rk.rows), Range(rk.file))),
    overlap_pctg |-> All(r, LAMBDA rk : CommTime(Streamed(rk)) > 0 =>
                           PctOK(rk.pctg, OverlapTime(Streamed(rk)), CommTime(Streamed(rk)))),
    range        |-> All(r, LAMBDA rk : CommTime(Streamed(rk)) > 0 => (rk.pctg >= 0 /\ rk.pctg <= 10000)) ]

\* C05
TypeIdxOf(types, c) == CHOOSE k \in DOMAIN types : types[k] = c
RankRows(r, rank) == Streamed(CHOOSE rk \in Ranks(r) : rk.rank = rank)
KernelsOf(r, rank, type) == OfClass(RankRows(r, rank), type)
TypeReported(r, name) == LET js == { j \in DOMAIN r.types : r.types[j].name = name }
                         IN SumSet(js, [j \in js |-> r.types[j].sum])
ExactlyAllRanks(r, types, m) == LET RS == Ranks(r) IN SumSet(RS, [rk \in RS |-> Exactly(Streamed(rk), types, m)])
ValidMasks(types) == { m \in 1..7 : MaskSet(m) \subseteq DOMAIN types }
KRows(r, rank, type) == { j \in DOMAIN r.kernels : r.kernels[j].rank = rank /\ r.kernels[j].type = type }
DurSum(S) == SumSet(S, [e \in S |-> e.dur])
Named(r, rank, type) == { j \in KRows(r, rank, type) : r.kernels[j].name # "others" }
WithName(r, rank, type, n) == { e \in KernelsOf(r, rank, type) : e.name = n }
C05(r) ==
  IF r.err # "" THEN [no_exception |-> FALSE] ELSE
  LET types == TypeOrder(r.incMem)
      total == SumSet(DOMAIN r.types, [j \in DOMAIN r.types |-> r.types[j].sum])
      RT == { <<rk.rank, types[k]>> : rk \in Ranks(r), k \in DOMAIN types }
  IN
  [ no_exception  |-> TRUE,
    in_domain     |-> All(r, LAMBDA rk : Streamed(rk) # {}),
    input_faithful |-> All(r, LAMBDA rk : RowsFaithful(Range(rk.rows), Range(rk.file))),
    type_times    |-> \A m \in ValidMasks(types) : TypeReported(r, RowName(types, m)) = ExactlyAllRanks(r, types, m),
    type_only     |-> \A j \in DOMAIN r.types : r.types[j].sum = 0 \/ \E m \in ValidMasks(types) : r.types[j].name = RowName(types, m),
    type_total    |-> LET RS == Ranks(r) IN total = SumSet(RS, [rk \in RS |-> Cardinality(AnalysedCells(Streamed(rk), types))]),
    type_pct      |-> total > 0 => /\ \A j \in DOMAIN r.types : 2 * Abs(r.types[j].pct * total - 1000 * r.types[j].sum) <= total + 2
                                   /\ Abs(SumSet(DOMAIN r.types, [j \in DOMAIN r.types |-> r.types[j].pct]) - 1000) <= Len(r.types),
    kernel_sums   |-> \A rt \in RT : LET js == KRows(r, rt[1], rt[2]) IN
                         SumSet(js, [j \in js |-> r.kernels[j].sum]) = DurSum(KernelsOf(r, rt[1], rt[2])),
    kernel_named_bound |-> \A rt \in RT : Cardinality(Named(r, rt[1], rt[2])) <= r.numK,
    kernel_named_once  |-> \A rt \in RT : \A a, b \in Named(r, rt[1], rt[2]) : r.kernels[a].name = r.kernels[b].name => a = b,
    kernel_named_stats |-> \A rt \in RT : \A j \in Named(r, rt[1], rt[2]) :
                         LET K == WithName(r, rt[1], rt[2], r.kernels[j].name)
                             row == r.kernels[j]
                         IN /\ K # {}
                            /\ row.sum = DurSum(K)
                            /\ row.max = SetMax({ e.dur : e \in K })
                            /\ row.min = SetMin({ e.dur : e \in K })
                            /\ Abs(row.mean1000 * Cardinality(K) - 1000 * DurSum(K)) <= Cardinality(K),
    kernel_only   |-> \A j \in DOMAIN r.kernels : <<r.kernels[j].rank, r.kernels[j].type>> \in RT ]

\* C05, second entry point: get_gpu_user_annotation_breakdown (the same aggregator over annotation events, per rank)
AnnoRows(r, rank) == Range((CHOOSE rk \in Ranks(r) : rk.rank = rank).annos)
ARows(r, rank) == { j \in DOMAIN r.kernels : r.kernels[j].rank = rank }
ANamed(r, rank) == { j \in ARows(r, rank) : r.kernels[j].name # "others" }
C05A(r) ==
  IF r.err # "" THEN [no_exception |-> FALSE] ELSE
  LET RK == { rk.rank : rk \in Ranks(r) } IN
  [ no_exception |-> TRUE,
    in_domain    |-> \E rk \in Ranks(r) : rk.annos # <<>>,
    anno_sums    |-> \A k \in RK : LET js == ARows(r, k) IN SumSet(js, [j \in js |-> r.kernels[j].sum]) = DurSum(AnnoRows(r, k)),
    anno_named_bound |-> r.allow \/ \A k \in RK : Cardinality(ANamed(r, k)) <= r.numK,
    anno_named_once  |-> \A k \in RK : \A a, b \in ANamed(r, k) : r.kernels[a].name = r.kernels[b].name => a = b,
    anno_named_stats |-> \A k \in RK : \A j \in ANamed(r, k) :
                           LET K == { e \in AnnoRows(r, k) : e.name = r.kernels[j].name }
                               row == r.kernels[j]
                           IN /\ K # {} /\ row.sum = DurSum(K) /\ row.max = SetMax({ e.dur : e \in K }) /\ row.min = SetMin({ e.dur : e \in K })
                              /\ Abs(row.mean1000 * Cardinality(K) - 1000 * DurSum(K)) <= Cardinality(K),
    anno_only    |-> \A j \in DOMAIN r.kernels : r.kernels[j].rank \in RK,
    beyond_kernel_annotation |-> r.kaErr = "" /\ KernelAnnoOK(Range(r.gannos), Range(r.ka)) ]

Clauses(r) == CASE r.prop = "C04" -> C04(r)
                [] r.prop = "C05A" -> C05A(r)
                [] r.prop = "C05" -> C05(r)
                [] r.prop = "C07" -> C07(r)

Verdict(r) == LET c == Clauses(r) IN { k \in DOMAIN c : ~c[k] }

Init == i = 1
Next == /\ i <= Len(Recs)
        /\ PrintT(<<"@@V", Recs[i].id, Verdict(Recs[i])>>)
        /\ i' = i + 1
Spec == Init /\ [][Next]_i
=============================================================================
