--------------------------- MODULE Trace_Breakdown ---------------------------
(***************************************************************************)
(* Trace validation for the breakdown analyses (C04, C05, C06, C07).       *)
(* Each record of the observation file holds what the real code was given  *)
(* (the rows of the loaded frames) and what its public API returned; TLC   *)
(* evaluates the declarative operators of Breakdown.tla -- the same ones   *)
(* the model checking uses -- on every record and prints one verdict line  *)
(* per record: the set of failing clauses (empty = accepted).              *)
(***************************************************************************)
EXTENDS Breakdown, Json, IOUtils, TLC

Recs == ndJsonDeserialize(IOEnv.OBS_FILE)

VARIABLE i
Streamed(rk) == { rk.rows[j] : j \in { k \in DOMAIN rk.rows : OnStream(rk.rows[k]) } }
Ranks(r) == Range(r.ranks)
All(r, P(_)) == \A rk \in Ranks(r) : P(rk)

------------------------------------------------------------------------------
\* C04
C04(r) ==
  IF r.err # "" THEN [no_exception |-> FALSE] ELSE
  [ no_exception     |-> TRUE,
    in_domain        |-> All(r, LAMBDA rk : Streamed(rk) # {}),
    kernel_time      |-> All(r, LAMBDA rk : rk.ktime = KernelTime(Streamed(rk))),
    idle_time        |-> All(r, LAMBDA rk : rk.idle = IdleTime(Streamed(rk))),
    compute_time     |-> All(r, LAMBDA rk : rk.comp = ComputeTime(Streamed(rk))),
    non_compute_time |-> All(r, LAMBDA rk : rk.ncomp = NonComputeTime(Streamed(rk))),
    parts_nonneg     |-> All(r, LAMBDA rk : rk.idle >= 0 /\ rk.comp >= 0 /\ rk.ncomp >= 0),
    parts_sum        |-> All(r, LAMBDA rk : rk.idle + rk.comp + rk.ncomp = rk.ktime),
    percentages      |-> All(r, LAMBDA rk : rk.ktime > 0 =>
                               /\ PctOK(rk.idleP, rk.idle, rk.ktime)
                               /\ PctOK(rk.compP, rk.comp, rk.ktime)
                               /\ PctOK(rk.ncompP, rk.ncomp, rk.ktime)) ]

\* C07
C07(r) ==
  IF r.err # "" THEN [no_exception |-> FALSE] ELSE
  [ no_exception |-> TRUE,
    in_domain     |-> All(r, LAMBDA rk : OfClass(Streamed(rk), "COMMUNICATION") # {}),
    overlap_pctg |-> All(r, LAMBDA rk : CommTime(Streamed(rk)) > 0 =>
                           PctOK(rk.pctg, OverlapTime(Streamed(rk)), CommTime(Streamed(rk)))),
    range        |-> All(r, LAMBDA rk : CommTime(Streamed(rk)) > 0 => (rk.pctg >= 0 /\ rk.pctg <= 10000)) ]

Clauses(r) == CASE r.prop = "C04" -> C04(r)
                [] r.prop = "C07" -> C07(r)

Verdict(r) == LET c == Clauses(r) IN { k \in DOMAIN c : ~c[k] }

Init == i = 1
Next == /\ i <= Len(Recs)
        /\ PrintT(<<"@@V", Recs[i].id, Verdict(Recs[i])>>)
        /\ i' = i + 1
Spec == Init /\ [][Next]_i
=============================================================================
