---------------------------- MODULE MC_Breakdown ----------------------------
(***************************************************************************)
(* Model checking of the merge + sweep design behind C04, C05 (type table) *)
(* and C07: every multiset of at most N activities on the grid 0..T with   *)
(* durations 0..D and four classes, and EVERY order an unstable sort may   *)
(* give to equal keys, both in the per-class merges and in the marker      *)
(* sweep.  One action per loop iteration of the code; the invariants are   *)
(* loop invariants, so a wrong intermediate state is reported where it     *)
(* arises, not only through a wrong final number.                          *)
(***************************************************************************)
EXTENDS Breakdown, TLC

CONSTANTS N, T, D

Classes == <<"COMPUTATION", "COMMUNICATION", "MEMORY", "OTHER">>
ClsIdx(c) == CHOOSE i \in 1..4 : Classes[i] = c
Item == [ts : 0..T, dur : 0..D, cls : Range(Classes)]
Key(e) == (e.ts * (D + 1) + e.dur) * 4 + (ClsIdx(e.cls) - 1)
\* canonical representatives of multisets: non-decreasing key
Inputs == UNION { { s \in [1..n -> Item] : \A i \in 1..(n - 1) : Key(s[i]) <= Key(s[i + 1]) } : n \in 1..N }

VARIABLES ks,        \* the input activities
          incMem,    \* include_memory_kernels
          phase,     \* "merge" | "sweep" | "done"
          pass,      \* which merge pass: 0 = all activities (C04), i>0 = type i of TypeOrder
          todo,      \* indices of ks not yet consumed by the current merge pass
          st,        \* merge state
          merged,    \* pass |-> groups of the finished passes
          marks,     \* markers not yet swept
          sw         \* sweep state
vars == <<ks, incMem, phase, pass, todo, st, merged, marks, sw>>

Types == TypeOrder(incMem)
AllActs == Range(ks)
RowsOfPass(p) == IF p = 0 THEN DOMAIN ks
                 ELSE { i \in DOMAIN ks : ks[i].cls = Types[p] }
LastPass == Len(Types)

Init == /\ ks \in Inputs
        /\ incMem \in BOOLEAN
        /\ phase = "merge" /\ pass = 0
        /\ todo = DOMAIN ks
        /\ st = MergeInit
        /\ merged = [p \in {} |-> <<>>]
        /\ marks = {} /\ sw = SweepInit

\* one iteration of the merge loop: the next row is ANY unconsumed row with the smallest start
MergeRow == /\ phase = "merge" /\ todo # {}
            /\ \E i \in todo :
                  /\ \A j \in todo : ks[i].ts <= ks[j].ts
                  /\ st' = MergeStep(st, ks[i])
                  /\ todo' = todo \ {i}
            /\ UNCHANGED <<ks, incMem, phase, pass, merged, marks, sw>>

\* a merge pass has consumed its rows: store the groups, start the next pass or the sweep
EndPass == /\ phase = "merge" /\ todo = {}
           /\ merged' = [p \in DOMAIN merged \cup {pass} |-> IF p = pass THEN st.groups ELSE merged[p]]
           /\ IF pass < LastPass
              THEN /\ pass' = pass + 1 /\ todo' = RowsOfPass(pass + 1) /\ st' = MergeInit
                   /\ UNCHANGED <<phase, marks, sw>>
              ELSE /\ phase' = "sweep"
                   /\ marks' = UNION { Markers(merged'[p], Bit(p)) : p \in 1..LastPass }
                   /\ UNCHANGED <<pass, todo, st, sw>>
           /\ UNCHANGED <<ks, incMem>>

\* one row of the sweep: ANY remaining marker with the smallest time
SweepRow == /\ phase = "sweep" /\ marks # {}
            /\ \E m \in marks :
                  /\ \A x \in marks : m.time <= x.time
                  /\ sw' = SweepStep(sw, m)
                  /\ marks' = marks \ {m}
            /\ UNCHANGED <<ks, incMem, phase, pass, todo, st, merged>>

Finish == /\ phase = "sweep" /\ marks = {}
          /\ phase' = "done"
          /\ UNCHANGED <<ks, incMem, pass, todo, st, merged, marks, sw>>

Next == MergeRow \/ EndPass \/ SweepRow \/ Finish
Spec == Init /\ [][Next]_vars

------------------------------------------------------------------------------
\* rows consumed so far by the current pass
Seen == { ks[i] : i \in RowsOfPass(pass) \ todo }

\* loop invariant of merge_kernel_intervals, for every tie order
InvMerge ==
    phase = "merge" =>
        LET gs == st.groups
        IN /\ GroupsCells(gs) = CellsOf(Ivs(Seen))
           /\ \A i \in 1..(Len(gs) - 1) : gs[i].end < gs[i + 1].ts
           /\ GroupsTime(gs) = Measure(Ivs(Seen))
           /\ Seen # {} => /\ gs[1].ts = SpanStart(Ivs(Seen))
                           /\ gs[Len(gs)].end = SpanEnd(Ivs(Seen))

\* the sweep's loop invariant: whenever time moves on, `running` is the mask of the types active
\* in the cells between the previous marker and this one
InvSweep ==
    (phase = "sweep" /\ sw.started /\ marks # {}) =>
        LET nxt == SetMin({ m.time : m \in marks })
        IN nxt > sw.prev =>
             /\ sw.running >= 0
             /\ \A t \in sw.prev..(nxt - 1) : MaskOf(ActiveAt(AllActs, Types, t)) = sw.running

\* C04: the three parts computed the way the code computes them
C04_Partition ==
    (phase # "merge" /\ 0 \in DOMAIN merged) =>
        LET all == merged[0]
            kernelTime == all[Len(all)].end - all[1].ts
            runTime == GroupsTime(all)
            idle == kernelTime - runTime
            comp == GroupsTime(merged[1])
            nonComp == kernelTime - comp - idle
        IN /\ kernelTime = KernelTime(AllActs)
           /\ idle = IdleTime(AllActs)
           /\ comp = ComputeTime(AllActs)
           /\ nonComp = NonComputeTime(AllActs)
           /\ idle >= 0 /\ comp >= 0 /\ nonComp >= 0
           /\ idle + comp + nonComp = kernelTime

\* C05 type table: every combination gets exactly its time; rows add up to the analysed union
C05_TypeTable ==
    phase = "done" =>
        /\ \A m \in 1..7 : AccOf(sw, m) = Exactly(AllActs, Types, m)
        /\ \A m \in DOMAIN sw.acc : m > 0 /\ (m < 8 \/ sw.acc[m] = 0)
        /\ SumSet(DOMAIN sw.acc, sw.acc) = Cardinality(AnalysedCells(AllActs, Types))
        /\ sw.running = 0

\* C07: overlap numerator and denominator (type bits 1 = computation, 2 = communication: mask 3)
C07_Overlap ==
    (phase = "done" /\ ~incMem) =>
        /\ AccOf(sw, 3) = OverlapTime(AllActs)
        /\ GroupsTime(merged[2]) = CommTime(AllActs)
        /\ AccOf(sw, 3) <= GroupsTime(merged[2])
=============================================================================
